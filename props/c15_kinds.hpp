// C15 — the object kinds whose call histories are explored (adaptors for props/c15_common.hpp::run_history).
// Included by the four small translation units c15_hist_{a,b,c,d}.cpp (split only to build in parallel).
// All eight iterative solvers, four coarsenings and nine relaxations are reached through the runtime wrappers; a
// mistyped parameter name is a harness error (throws "harness: ...").
#pragma once
#define AMGCL_PARAM_UNKNOWN(name) throw std::logic_error(std::string("harness: unknown amgcl parameter ") + std::string(name))
#include <stdexcept>
#include <amgcl/backend/builtin.hpp>
#include <amgcl/value_type/static_matrix.hpp>
#include <amgcl/make_solver.hpp>
#include <amgcl/make_block_solver.hpp>
#include <amgcl/deflated_solver.hpp>
#include <amgcl/amg.hpp>
#include <amgcl/coarsening/runtime.hpp>
#include <amgcl/relaxation/runtime.hpp>
#include <amgcl/relaxation/as_preconditioner.hpp>
#include <amgcl/solver/runtime.hpp>
#include <amgcl/preconditioner/cpr.hpp>
#include <amgcl/preconditioner/schur_pressure_correction.hpp>
#include <amgcl/adapter/crs_tuple.hpp>
#include <amgcl/adapter/block_matrix.hpp>
#include "c15_common.hpp"

using namespace vf15;
typedef amgcl::backend::builtin<double> BK;
typedef amgcl::static_matrix<double, 2, 2> blk2;
typedef amgcl::backend::builtin<blk2> BB;
typedef amgcl::amg<BK, amgcl::runtime::coarsening::wrapper, amgcl::runtime::relaxation::wrapper> AMG;
typedef amgcl::relaxation::as_preconditioner<BK, amgcl::runtime::relaxation::wrapper> RELAX;
typedef amgcl::runtime::solver::wrapper<BK> SOLVER;

#define TUP(M) std::tie((M).n, (M).ptr, (M).col, (M).val)

inline Sys plain_sys(Tape &t, int nmax, bool allow_nonsym) {
    Sys s;
    Graph g = gen_graph(t, nmax, 0, 8);
    s.family = g.family;
    s.A = gen_matrix(t, g, allow_nonsym, &s.nonsym);
    s.n = s.A.n;
    return s;
}

struct KAmg {
    typedef amgcl::make_solver<AMG, SOLVER> Obj;
    static const char *name() { return "make_solver<amg>"; }
    static const bool has_apply = true, has_papply = true, has_rebuild = true, projects_first = false;
    static Sys gen_sys(Tape &t) { return plain_sys(t, 32, true); }
    static void gen_cfg(Tape &t, const Sys &s, Cfg &c) { c.solver = gen_solver(t, s.n, true, &c, &c.text); c.text += " + "; c.amg = gen_amg(t, false, &c, &c.text); }
    static std::shared_ptr<Obj> make(const Sys &s, const Cfg &c) { ptree p; p.put_child("solver", c.solver); p.put_child("precond", c.amg); return std::make_shared<Obj>(TUP(s.A), p); }
    static std::tuple<size_t, double> solve(const Obj &o, const vec &f, vec &x) { return o(f, x); }
    static std::tuple<size_t, double> solveA(const Obj &o, const Csr<double> &A, const vec &f, vec &x) { return o(TUP(A), f, x); }
    static void apply(const Obj &o, const vec &f, vec &x) { o.apply(f, x); }
    static void papply(const Obj &o, const vec &f, vec &x) { o.precond().apply(f, x); }
    static void rebuild(Obj &o, const Csr<double> &A) { o.precond().rebuild(TUP(A)); }
};

struct KRelax {
    typedef amgcl::make_solver<RELAX, SOLVER> Obj;
    static const char *name() { return "make_solver<as_preconditioner>"; }
    static const bool has_apply = true, has_papply = true, has_rebuild = false, projects_first = false;
    static Sys gen_sys(Tape &t) { return plain_sys(t, 32, true); }
    static void gen_cfg(Tape &t, const Sys &s, Cfg &c) { c.solver = gen_solver(t, s.n, true, &c, &c.text); c.relax = gen_relax(t, false, &c.relaxation); c.text += " + relax(" + c.relaxation + ")"; }
    static std::shared_ptr<Obj> make(const Sys &s, const Cfg &c) { ptree p; p.put_child("solver", c.solver); p.put_child("precond", c.relax); return std::make_shared<Obj>(TUP(s.A), p); }
    static std::tuple<size_t, double> solve(const Obj &o, const vec &f, vec &x) { return o(f, x); }
    static std::tuple<size_t, double> solveA(const Obj &o, const Csr<double> &A, const vec &f, vec &x) { return o(TUP(A), f, x); }
    static void apply(const Obj &o, const vec &f, vec &x) { o.apply(f, x); }
    static void papply(const Obj &o, const vec &f, vec &x) { o.precond().apply(f, x); }
    static void rebuild(Obj &, const Csr<double> &) { throw std::logic_error("harness: no rebuild"); }
};

struct KNested {
    typedef amgcl::make_solver<amgcl::make_solver<AMG, SOLVER>, SOLVER> Obj;
    static const char *name() { return "make_solver<make_solver<amg>>"; }
    static const bool has_apply = true, has_papply = true, has_rebuild = true, projects_first = false;
    static Sys gen_sys(Tape &t) { return plain_sys(t, 28, true); }
    static void gen_cfg(Tape &t, const Sys &s, Cfg &c) {
        c.solver = gen_solver(t, s.n, true, &c, &c.text); c.text += " + inner ";
        c.inner1 = gen_solver(t, s.n, false, nullptr, &c.text); c.text += " + ";
        c.amg = gen_amg(t, false, &c, &c.text);
    }
    static std::shared_ptr<Obj> make(const Sys &s, const Cfg &c) {
        ptree p; p.put_child("solver", c.solver); p.put_child("precond.solver", c.inner1); p.put_child("precond.precond", c.amg);
        return std::make_shared<Obj>(TUP(s.A), p);
    }
    static std::tuple<size_t, double> solve(const Obj &o, const vec &f, vec &x) { return o(f, x); }
    static std::tuple<size_t, double> solveA(const Obj &o, const Csr<double> &A, const vec &f, vec &x) { return o(TUP(A), f, x); }
    static void apply(const Obj &o, const vec &f, vec &x) { o.apply(f, x); }
    static void papply(const Obj &o, const vec &f, vec &x) { o.precond().apply(f, x); }
    static void rebuild(Obj &o, const Csr<double> &A) { o.precond().precond().rebuild(TUP(A)); }
};

struct KDeflated {
    typedef amgcl::deflated_solver<AMG, SOLVER> Obj;
    static const char *name() { return "deflated_solver<amg>"; }
    static const bool has_apply = true, has_papply = true, has_rebuild = true, projects_first = true;
    static Sys gen_sys(Tape &t) {
        Sys s = plain_sys(t, 28, false); // SPD: Z^T A Z is nonsingular for every full-rank Z
        s.nvec = static_cast<int>(t.u(1, std::min<ptrdiff_t>(3, s.n)));
        s.Z.assign(static_cast<size_t>(s.nvec) * s.n, 0.0);
        for (int j = 0; j < s.nvec; ++j) for (ptrdiff_t i = s.n * j / s.nvec; i < s.n * (j + 1) / s.nvec; ++i) s.Z[j * s.n + i] = 1.0;
        return s;
    }
    static void gen_cfg(Tape &t, const Sys &s, Cfg &c) { c.solver = gen_solver(t, s.n, true, &c, &c.text); c.text += " + "; c.amg = gen_amg(t, false, &c, &c.text); c.text += " nvec=" + std::to_string(s.nvec); }
    static std::shared_ptr<Obj> make(const Sys &s, const Cfg &c) {
        Obj::params prm;
        prm.nvec = s.nvec; prm.vec = const_cast<double *>(s.Z.data());
        prm.precond = AMG::params(c.amg); prm.solver = c.solver;
        return std::make_shared<Obj>(TUP(s.A), prm);
    }
    static std::tuple<size_t, double> solve(const Obj &o, const vec &f, vec &x) { return o(f, x); }
    static std::tuple<size_t, double> solveA(const Obj &o, const Csr<double> &A, const vec &f, vec &x) { return o(TUP(A), f, x); }
    static void apply(const Obj &o, const vec &f, vec &x) { o.apply(f, x); }
    static void papply(const Obj &o, const vec &f, vec &x) { o.precond().apply(f, x); }
    static void rebuild(Obj &o, const Csr<double> &A) { o.precond().rebuild(TUP(A)); }
};

inline Sys block_sys(Tape &t, int nbmax) {
    Sys s; s.b = 2;
    Graph g = gen_graph(t, nbmax, 0, 8);
    s.family = g.family;
    Csr<double> M = gen_mmat(t, g, 100.0, true);
    s.A = kron_block(t, M, 2);
    s.n = s.A.n;
    return s;
}

struct KCpr {
    typedef amgcl::make_solver<amgcl::preconditioner::cpr<AMG, RELAX>, SOLVER> Obj;
    static const char *name() { return "make_solver<cpr>"; }
    static const bool has_apply = true, has_papply = true, has_rebuild = false, projects_first = false;
    static Sys gen_sys(Tape &t) { return block_sys(t, 12); }
    static void gen_cfg(Tape &t, const Sys &s, Cfg &c) {
        c.solver = gen_solver(t, s.n, true, &c, &c.text); c.text += " + cpr(";
        c.amg = gen_amg(t, false, &c, &c.text);
        std::string r; c.relax = gen_relax(t, false, &r); c.text += ", relax(" + r + "))";
    }
    static std::shared_ptr<Obj> make(const Sys &s, const Cfg &c) {
        ptree p; p.put_child("solver", c.solver); p.put_child("precond.pprecond", c.amg); p.put_child("precond.sprecond", c.relax); p.put("precond.block_size", 2);
        return std::make_shared<Obj>(TUP(s.A), p);
    }
    static std::tuple<size_t, double> solve(const Obj &o, const vec &f, vec &x) { return o(f, x); }
    static std::tuple<size_t, double> solveA(const Obj &o, const Csr<double> &A, const vec &f, vec &x) { return o(TUP(A), f, x); }
    static void apply(const Obj &o, const vec &f, vec &x) { o.apply(f, x); }
    static void papply(const Obj &o, const vec &f, vec &x) { o.precond().apply(f, x); }
    static void rebuild(Obj &, const Csr<double> &) { throw std::logic_error("harness: no rebuild"); }
};

struct KSchur {
    typedef amgcl::make_solver<RELAX, SOLVER> Inner;
    typedef amgcl::make_solver<amgcl::preconditioner::schur_pressure_correction<Inner, Inner>, SOLVER> Obj;
    static const char *name() { return "make_solver<schur>"; }
    static const bool has_apply = true, has_papply = true, has_rebuild = false, projects_first = false;
    static Sys gen_sys(Tape &t) {
        // K = [Kuu Kup; -Kup^T C]: Kuu, C SPD M-matrices => positive definite (non-symmetric), Schur complement SPD
        Sys s;
        s.nu = t.u(2, 12); s.np = t.u(1, 6); s.n = s.nu + s.np;
        bool interleaved = t.b();
        s.pmask.assign(s.n, 0);
        if (!interleaved) for (ptrdiff_t i = s.nu; i < s.n; ++i) s.pmask[i] = 1;
        else { // spread the pressure unknowns evenly
            for (ptrdiff_t k = 0; k < s.np; ++k) s.pmask[(k * s.n) / s.np] = 1;
        }
        std::vector<ptrdiff_t> ui, pi;
        for (ptrdiff_t i = 0; i < s.n; ++i) (s.pmask[i] ? pi : ui).push_back(i);
        Graph gu = graph_n(t, static_cast<int>(s.nu)), gp = graph_n(t, static_cast<int>(s.np));
        s.family = "saddle:" + gu.family + "/" + gp.family + (interleaved ? ",interleaved" : ",contiguous");
        s.nonsym = true;
        Csr<double> Kuu = gen_mmat(t, gu, 100.0, false), C = gen_mmat(t, gp, 10.0, false);
        std::vector<std::map<ptrdiff_t, double>> rows(s.n);
        for (ptrdiff_t i = 0; i < s.nu; ++i) for (ptrdiff_t j = Kuu.ptr[i]; j < Kuu.ptr[i + 1]; ++j) rows[ui[i]][ui[Kuu.col[j]]] = Kuu.val[j];
        for (ptrdiff_t i = 0; i < s.np; ++i) for (ptrdiff_t j = C.ptr[i]; j < C.ptr[i + 1]; ++j) rows[pi[i]][pi[C.col[j]]] = C.val[j];
        for (ptrdiff_t j = 0; j < s.np; ++j) { int k = static_cast<int>(t.u(1, 3)); for (int a = 0; a < k; ++a) { ptrdiff_t i = static_cast<ptrdiff_t>(t.pick(s.nu)); double v = t.slogu(0.1, 2.0); rows[ui[i]][pi[j]] = v; rows[pi[j]][ui[i]] = -v; } }
        s.A = from_triplets<double>(s.n, s.n, rows);
        return s;
    }
    static void gen_cfg(Tape &t, const Sys &s, Cfg &c) {
        c.solver = gen_solver(t, s.n, true, &c, &c.text);
        int type = 1 + static_cast<int>(t.u(0, 1)), adjust_p = static_cast<int>(t.u(0, 2)); bool approx = t.b(), simplec = t.b();
        c.amg.put("type", type); c.amg.put("adjust_p", adjust_p); c.amg.put("approx_schur", approx); c.amg.put("simplec_dia", simplec); // (re-used slot: schur's own parameters)
        std::ostringstream os; os << " + schur(type=" << type << ",adjust_p=" << adjust_p << ",approx_schur=" << approx << ",simplec_dia=" << simplec << ", U=";
        c.text += os.str();
        static const char *rl[] = {"spai0", "damped_jacobi", "ilu0", "gauss_seidel", "chebyshev"};
        std::string ru = rl[t.u(0, 4)], rp = rl[t.u(0, 4)];
        c.inner1.put_child("solver", gen_solver(t, s.nu, false, nullptr, &c.text)); c.inner1.put("precond.type", ru); c.text += "/" + ru + ", P=";
        c.inner2.put_child("solver", gen_solver(t, s.np, false, nullptr, &c.text)); c.inner2.put("precond.type", rp); c.text += "/" + rp + ")";
        c.relaxation = ru;
    }
    static std::shared_ptr<Obj> make(const Sys &s, const Cfg &c) {
        ptree p; p.put_child("solver", c.solver); p.put_child("precond", c.amg);
        p.put_child("precond.usolver", c.inner1); p.put_child("precond.psolver", c.inner2);
        p.put("precond.pmask_size", static_cast<size_t>(s.n));
        p.put("precond.pmask", static_cast<void *>(const_cast<char *>(s.pmask.data())));
        return std::make_shared<Obj>(TUP(s.A), p);
    }
    static std::tuple<size_t, double> solve(const Obj &o, const vec &f, vec &x) { return o(f, x); }
    static std::tuple<size_t, double> solveA(const Obj &o, const Csr<double> &A, const vec &f, vec &x) { return o(TUP(A), f, x); }
    static void apply(const Obj &o, const vec &f, vec &x) { o.apply(f, x); }
    static void papply(const Obj &o, const vec &f, vec &x) { o.precond().apply(f, x); }
    static void rebuild(Obj &, const Csr<double> &) { throw std::logic_error("harness: no rebuild"); }
};

struct KBlock {
    typedef amgcl::make_block_solver<amgcl::amg<BB, amgcl::runtime::coarsening::wrapper, amgcl::runtime::relaxation::wrapper>, amgcl::runtime::solver::wrapper<BB>> Obj;
    static const char *name() { return "make_block_solver<amg,2x2>"; }
    static const bool has_apply = false, has_papply = false, has_rebuild = false, projects_first = false;
    static Sys gen_sys(Tape &t) { return block_sys(t, 12); }
    static void gen_cfg(Tape &t, const Sys &s, Cfg &c) { c.solver = gen_solver(t, s.n / 2, true, &c, &c.text); c.text += " + "; c.amg = gen_amg(t, true, &c, &c.text); }
    static std::shared_ptr<Obj> make(const Sys &s, const Cfg &c) { ptree p; p.put_child("solver", c.solver); p.put_child("precond", c.amg); return std::make_shared<Obj>(TUP(s.A), p); }
    static std::tuple<size_t, double> solve(const Obj &o, const vec &f, vec &x) { return o(f, x); }
    static std::tuple<size_t, double> solveA(const Obj &o, const Csr<double> &A, const vec &f, vec &x) { return o(amgcl::adapter::block_matrix<blk2>(TUP(A)), f, x); }
    static void apply(const Obj &, const vec &, vec &) { throw std::logic_error("harness: no apply"); }
    static void papply(const Obj &, const vec &, vec &) { throw std::logic_error("harness: no precond.apply"); }
    static void rebuild(Obj &, const Csr<double> &) { throw std::logic_error("harness: no rebuild"); }
};

