// C03 for value types whose entrywise adjoint is not the identity: std::complex<double> and static_matrix<double,2,2>.
//
// "R is the adjoint of P": for complex values R(j,i) == conj(P(i,j)), for block values R(j,i) == P(i,j)^T, entry for entry.
// "A_c == R*A*P (re-scaled for plain aggregation)": against a scalar-expanded long-double-complex sparse triple product with the
// rounding bound 8 (terms + 4) u * s * sum|r||a||p|.  Rebuild clauses: transfer operators unchanged, coarse matrices Galerkin again,
// apply bitwise equal to a fresh hierarchy assembled from A' with the same operators, rebuild(original) restores the action.
//
// Generic twin of c03_record.hpp / c03_galerkin.hpp (those are written for double); the two families are never included together,
// each TU defines the AMGCL_VERIF friend accessor once.
#pragma once
#include <complex>
#include <memory>
#include <tuple>
#include <vector>
#include <amgcl/backend/builtin.hpp>
#include <amgcl/value_type/complex.hpp>
#include <amgcl/value_type/static_matrix.hpp>
#include <amgcl/amg.hpp>
#include <amgcl/coarsening/detail/galerkin.hpp>
#include <amgcl/coarsening/detail/scaled_galerkin.hpp>
#include <amgcl/coarsening/aggregation.hpp>
#include <amgcl/coarsening/smoothed_aggregation.hpp>
#include <amgcl/coarsening/smoothed_aggr_emin.hpp>
#include <amgcl/relaxation/spai0.hpp>
#include <amgcl/relaxation/damped_jacobi.hpp>
#include <amgcl/relaxation/gauss_seidel.hpp>
#include "../common/harness.hpp"
#include "../common/gen.hpp"
#include "../common/amgcl_util.hpp"
#include "c03_c04_matgen.hpp"

namespace c03v {
using namespace vf;
namespace co = amgcl::coarsening;
namespace rx = amgcl::relaxation;
typedef long double ld;
typedef std::complex<ld> cld;
typedef std::complex<double> cplx;
typedef amgcl::static_matrix<double, 2, 2> blk2;
static const ld U = 1.1102230246251565404e-16L; // 2^-53

template <class V>
struct LevelView {
    size_t rows = 0;
    std::shared_ptr<amgcl::backend::crs<V>> A, P, R, bP, bR;
    bool solve = false, relax = false;
};
} // namespace c03v

namespace amgcl_verif {
struct access {
    template <class V, class AMG>
    static std::vector<c03v::LevelView<V>> levels(const AMG &amg) {
        std::vector<c03v::LevelView<V>> v;
        for (const auto &l : amg.levels) {
            c03v::LevelView<V> w;
            w.rows = l.m_rows; w.A = l.A; w.P = l.P; w.R = l.R; w.bP = l.bP; w.bR = l.bR;
            w.solve = static_cast<bool>(l.solve); w.relax = static_cast<bool>(l.relax);
            v.push_back(w);
        }
        return v;
    }
};
} // namespace amgcl_verif

namespace c03v {

// ------------------------------------------------------------------ value type knowledge
template <class V> struct VT;
template <> struct VT<cplx> {
    static const int B = 1;
    static const char *name() { return "complex"; }
    static cld at(const cplx &v, int, int) { return cld(v.real(), v.imag()); }
    static bool is_adjoint(const cplx &r, const cplx &p) { return r.real() == p.real() && r.imag() == -p.imag(); }
    static bool self_adjoint(const cplx &p) { return p.imag() == 0; }
    static bool finite(const cplx &v) { return std::isfinite(v.real()) && std::isfinite(v.imag()); }
};
template <> struct VT<blk2> {
    static const int B = 2;
    static const char *name() { return "block2x2"; }
    static cld at(const blk2 &v, int i, int j) { return cld(v(i, j), 0); }
    static bool is_adjoint(const blk2 &r, const blk2 &p) { for (int i = 0; i < 2; ++i) for (int j = 0; j < 2; ++j) if (r(i, j) != p(j, i)) return false; return true; }
    static bool self_adjoint(const blk2 &p) { return p(0, 1) == p(1, 0); }
    static bool finite(const blk2 &v) { for (int i = 0; i < 4; ++i) if (!std::isfinite(v(i))) return false; return true; }
};

template <class V> bool same_bits(const Csr<V> &X, const Csr<V> &Y) {
    return X.n == Y.n && X.m == Y.m && X.ptr == Y.ptr && X.col == Y.col && X.val.size() == Y.val.size() &&
           (X.val.empty() || std::memcmp(static_cast<const void *>(X.val.data()), static_cast<const void *>(Y.val.data()), X.val.size() * sizeof(V)) == 0);
}
template <class T> bool same_bits(const std::vector<T> &x, const std::vector<T> &y) {
    return x.size() == y.size() && (x.empty() || std::memcmp(static_cast<const void *>(x.data()), static_cast<const void *>(y.data()), x.size() * sizeof(T)) == 0);
}
template <class V> bool all_finite(const Csr<V> &X) { for (auto &v : X.val) if (!VT<V>::finite(v)) return false; return true; }

// ------------------------------------------------------------------ recording / replaying policies (generic in the value type)
template <class V> struct TransferRec { Csr<V> A, P, R; };
template <class V> struct CoarseRec { Csr<V> A, P, R, Ac; };
template <class V> struct Log {
    std::vector<TransferRec<V>> transfers; std::vector<CoarseRec<V>> coarse; int empty_levels = 0;
    void clear() { transfers.clear(); coarse.clear(); empty_levels = 0; }
};

template <template <class> class C, class V>
struct recording {
    template <class B>
    struct type {
        typedef C<B> base_type;
        struct params : base_type::params {
            std::shared_ptr<Log<V>> log;
            params() {}
        };
        base_type base;
        std::shared_ptr<Log<V>> log;
        type(const params &p = params()) : base(static_cast<const typename base_type::params &>(p)), log(p.log) {}

        template <class Matrix>
        std::tuple<std::shared_ptr<Matrix>, std::shared_ptr<Matrix>> transfer_operators(const Matrix &A) {
            try {
                auto pr = base.transfer_operators(A);
                if (log) { TransferRec<V> r; r.A = from_crs(A); r.P = from_crs(*std::get<0>(pr)); r.R = from_crs(*std::get<1>(pr)); log->transfers.push_back(std::move(r)); }
                return pr;
            } catch (const amgcl::error::empty_level &) { if (log) ++log->empty_levels; throw; }
        }
        template <class Matrix>
        std::shared_ptr<Matrix> coarse_operator(const Matrix &A, const Matrix &P, const Matrix &R) const {
            auto Ac = base.coarse_operator(A, P, R);
            if (log) { CoarseRec<V> r; r.A = from_crs(A); r.P = from_crs(P); r.R = from_crs(R); r.Ac = from_crs(*Ac); log->coarse.push_back(std::move(r)); }
            return Ac;
        }
    };
};

template <class V> struct StoredOps { std::vector<std::pair<Csr<V>, Csr<V>>> pr; };

template <class V>
struct replaying {
    template <class B>
    struct type {
        struct params { std::shared_ptr<const StoredOps<V>> ops; bool scaled = false; float scale = 1.0f; };
        params prm; size_t next = 0;
        type(const params &p = params()) : prm(p) {}
        template <class Matrix>
        std::tuple<std::shared_ptr<Matrix>, std::shared_ptr<Matrix>> transfer_operators(const Matrix &A) {
            if (!prm.ops || next >= prm.ops->pr.size()) throw amgcl::error::empty_level();
            const auto &pr = prm.ops->pr[next++];
            if (static_cast<ptrdiff_t>(amgcl::backend::rows(A)) != pr.first.n) throw std::logic_error("replaying: stored prolongation does not fit the level matrix");
            std::shared_ptr<Matrix> P = to_crs<V>(pr.first), R = to_crs<V>(pr.second);
            return std::make_tuple(P, R);
        }
        template <class Matrix>
        std::shared_ptr<Matrix> coarse_operator(const Matrix &A, const Matrix &P, const Matrix &R) const {
            if (prm.scaled) return co::detail::scaled_galerkin(A, P, R, prm.scale);
            return co::detail::galerkin(A, P, R);
        }
    };
};

// ------------------------------------------------------------------ scalar-expanded reference triple product
struct Triple { std::vector<std::map<ptrdiff_t, cld>> val; std::vector<std::map<ptrdiff_t, ld>> abs; std::vector<std::map<ptrdiff_t, long>> cnt; };

template <class V>
Triple triple_product(const Csr<V> &R, const Csr<V> &A, const Csr<V> &P) {
    const int B = VT<V>::B;
    Triple T; T.val.resize(R.n * B); T.abs.resize(R.n * B); T.cnt.resize(R.n * B);
    for (ptrdiff_t i = 0; i < R.n; ++i) for (ptrdiff_t jr = R.ptr[i]; jr < R.ptr[i + 1]; ++jr) {
        ptrdiff_t k = R.col[jr];
        for (ptrdiff_t ja = A.ptr[k]; ja < A.ptr[k + 1]; ++ja) {
            ptrdiff_t l = A.col[ja];
            for (ptrdiff_t jp = P.ptr[l]; jp < P.ptr[l + 1]; ++jp) {
                ptrdiff_t j = P.col[jp];
                for (int a = 0; a < B; ++a) for (int b = 0; b < B; ++b) for (int c = 0; c < B; ++c) for (int d = 0; d < B; ++d) {
                    cld r = VT<V>::at(R.val[jr], a, b), av = VT<V>::at(A.val[ja], b, c), p = VT<V>::at(P.val[jp], c, d);
                    if (r == cld() || av == cld() || p == cld()) continue;
                    cld v = r * av * p;
                    T.val[i * B + a][j * B + d] += v; T.abs[i * B + a][j * B + d] += std::abs(r) * std::abs(av) * std::abs(p); ++T.cnt[i * B + a][j * B + d];
                }
            }
        }
    }
    return T;
}

template <class V>
ld require_galerkin(const Csr<V> &Ac, const Csr<V> &R, const Csr<V> &A, const Csr<V> &P, bool scaled, float over_interp, const std::string &what) {
    const int B = VT<V>::B;
    VF_REQUIRE(R.m == A.n && A.m == P.n && A.n == A.m, what << ": shapes R " << R.n << "x" << R.m << ", A " << A.n << "x" << A.m << ", P " << P.n << "x" << P.m);
    VF_REQUIRE(Ac.n == R.n && Ac.m == P.m, what << ": coarse matrix is " << Ac.n << "x" << Ac.m << ", R*A*P is " << R.n << "x" << P.m);
    ld s = 1; if (scaled) { float sf = 1 / over_interp; s = sf; } // single precision quotient, as in scaled_galerkin(A, P, R, 1 / prm.over_interp)
    Triple T = triple_product(R, A, P);
    std::vector<std::map<ptrdiff_t, cld>> got(Ac.n * B);
    std::vector<std::set<ptrdiff_t>> stored(Ac.n);
    for (ptrdiff_t i = 0; i < Ac.n; ++i) for (ptrdiff_t j = Ac.ptr[i]; j < Ac.ptr[i + 1]; ++j) {
        VF_REQUIRE(Ac.col[j] >= 0 && Ac.col[j] < Ac.m, what << ": column out of range");
        VF_REQUIRE(stored[i].insert(Ac.col[j]).second, what << ": duplicate entry (" << i << "," << Ac.col[j] << ") in the coarse matrix");
        for (int a = 0; a < B; ++a) for (int d = 0; d < B; ++d) got[i * B + a][Ac.col[j] * B + d] = VT<V>::at(Ac.val[j], a, d);
    }
    ld worst = 0;
    for (ptrdiff_t i = 0; i < Ac.n * B; ++i) {
        for (auto &kv : T.val[i]) {
            ptrdiff_t j = kv.first;
            cld ref = s * kv.second; ld S = s * T.abs[i][j], tol = 8 * (T.cnt[i][j] + 4) * U * S;
            auto it = got[i].find(j);
            cld g = it == got[i].end() ? cld() : it->second;
            ld e = std::abs(g - ref);
            if (tol > 0) worst = std::max(worst, e / tol);
            VF_REQUIRE(e <= tol, what << ": A_c scalar entry (" << i << "," << j << ") = (" << static_cast<double>(g.real()) << "," << static_cast<double>(g.imag()) << ")" << (it == got[i].end() ? " <not stored>" : "") << " but "
                       << (scaled ? "(R*A*P)/over_interp" : "R*A*P") << " = (" << static_cast<double>(ref.real()) << "," << static_cast<double>(ref.imag()) << ") (|diff| " << static_cast<double>(e) << " > " << static_cast<double>(tol)
                       << ", " << T.cnt[i][j] << " terms, sum|r||a||p| = " << static_cast<double>(T.abs[i][j]) << ")");
        }
        for (auto &kv : got[i]) if (!T.val[i].count(kv.first)) VF_REQUIRE(kv.second == cld(), what << ": A_c scalar entry (" << i << "," << kv.first << ") lies outside the pattern of R*A*P and is not zero");
    }
    return worst;
}

// R == adjoint(P), entry for entry; returns the number of entries of P that are not self-adjoint (where the adjoint matters)
template <class V>
long require_adjoint(const Csr<V> &P, const Csr<V> &R, const std::string &what) {
    VF_REQUIRE(R.n == P.m && R.m == P.n && R.nnz() == P.nnz(), what << ": R " << R.n << "x" << R.m << " nnz " << R.nnz() << " vs P " << P.n << "x" << P.m << " nnz " << P.nnz());
    std::vector<std::map<ptrdiff_t, V>> pt(P.m);
    long nsa = 0;
    for (ptrdiff_t i = 0; i < P.n; ++i) for (ptrdiff_t j = P.ptr[i]; j < P.ptr[i + 1]; ++j) { pt[P.col[j]][i] = P.val[j]; if (!VT<V>::self_adjoint(P.val[j])) ++nsa; }
    for (ptrdiff_t i = 0; i < R.n; ++i) for (ptrdiff_t j = R.ptr[i]; j < R.ptr[i + 1]; ++j) {
        auto it = pt[i].find(R.col[j]);
        VF_REQUIRE(it != pt[i].end(), what << ": R(" << i << "," << R.col[j] << ") has no counterpart in P");
        VF_REQUIRE(VT<V>::is_adjoint(R.val[j], it->second), what << ": R(" << i << "," << R.col[j] << ") = " << R.val[j] << " is not the adjoint of P(" << R.col[j] << "," << i << ") = " << it->second);
    }
    return nsa;
}

// ------------------------------------------------------------------ matrices
// complex: 0 Hermitian positive definite (a_ji = conj(a_ij), real dominant diagonal), 1 general complex (independent a_ij, a_ji, complex dominant diagonal),
//          2 Gaussian-integer Hermitian (small integers)
inline Csr<cplx> gen_values(Tape &t, const Graph &g, cplx *, std::string &fam) {
    int kind = static_cast<int>(t.u(0, 2));
    fam = kind == 0 ? "hermitian-pd" : kind == 1 ? "general-complex" : "gaussian-int-hermitian";
    std::vector<std::map<ptrdiff_t, cplx>> rows(g.n);
    std::vector<double> sabs(g.n, 0.0);
    for (auto &e : g.edges) {
        int i = e.first, j = e.second;
        cplx a, b;
        if (kind == 2) { a = cplx(-static_cast<double>(t.u(1, 3)), static_cast<double>(t.u(-2, 2))); b = std::conj(a); }
        else { a = std::polar(t.logu(0.2, 5.0), t.uni(0.0, 6.283185307179586)); b = kind == 0 ? std::conj(a) : std::polar(t.logu(0.2, 5.0), t.uni(0.0, 6.283185307179586)); }
        if (kind == 1 && t.chance(1, 8)) { rows[i][j] = a; sabs[i] += std::abs(a); continue; } // structurally non-symmetric
        rows[i][j] = a; rows[j][i] = b; sabs[i] += std::abs(a); sabs[j] += std::abs(b);
    }
    for (int i = 0; i < g.n; ++i) {
        double d = kind == 2 ? std::ceil(sabs[i]) + static_cast<double>(t.u(1, 2)) : sabs[i] * t.uni(1.0, 1.5) + t.logu(0.05, 2.0);
        rows[i][i] = kind == 1 ? std::polar(d, t.uni(-0.7, 0.7)) : cplx(d, 0);
    }
    return from_triplets<cplx>(g.n, g.n, rows);
}

// blocks: a_ij = w_ij * M_ij with non-symmetric 2x2 M; kind 0: block-symmetric (A_ji = A_ij^T, SPD by dominance), kind 1: general
inline Csr<blk2> gen_values(Tape &t, const Graph &g, blk2 *, std::string &fam) {
    int kind = static_cast<int>(t.u(0, 1));
    fam = kind == 0 ? "block-symmetric-pd" : "block-general";
    std::vector<std::map<ptrdiff_t, blk2>> rows(g.n);
    std::vector<double> sabs(g.n, 0.0);
    auto rnd = [&]() { blk2 m; double w = t.logu(0.2, 5.0); m(0, 0) = -w * t.uni(0.5, 1.0); m(1, 1) = -w * t.uni(0.5, 1.0); m(0, 1) = w * t.uni(-0.5, 0.5); m(1, 0) = w * t.uni(-0.5, 0.5); return m; };
    auto nrm = [](const blk2 &m) { return std::abs(m(0, 0)) + std::abs(m(0, 1)) + std::abs(m(1, 0)) + std::abs(m(1, 1)); };
    for (auto &e : g.edges) {
        int i = e.first, j = e.second;
        blk2 a = rnd(), b;
        if (kind == 0) { b(0, 0) = a(0, 0); b(1, 1) = a(1, 1); b(0, 1) = a(1, 0); b(1, 0) = a(0, 1); } else b = rnd();
        rows[i][j] = a; rows[j][i] = b; sabs[i] += nrm(a); sabs[j] += nrm(b);
    }
    for (int i = 0; i < g.n; ++i) {
        blk2 d; double s = sabs[i] * t.uni(1.0, 1.5) + t.logu(0.05, 2.0);
        double off = kind == 0 ? 0.0 : 0.2 * s * t.uni(-1.0, 1.0), sym = 0.2 * s * t.uni(-1.0, 1.0);
        d(0, 0) = s; d(1, 1) = s * t.uni(1.0, 1.3); d(0, 1) = sym + off; d(1, 0) = sym - off;
        rows[i][i] = d;
    }
    return from_triplets<blk2>(g.n, g.n, rows);
}

// changed values on the same pattern that keep the dominance: off-diagonals shrink by a pair-symmetric factor in [0.5,1], diagonals grow by [1,2]
template <class V>
Csr<V> perturb(Tape &t, const Csr<V> &A0) {
    Csr<V> A = A0;
    uint32_t salt = static_cast<uint32_t>(t.u(0, 1 << 20));
    std::vector<double> g(A.n); for (auto &x : g) x = t.uni(1.0, 2.0);
    for (ptrdiff_t i = 0; i < A.n; ++i) for (ptrdiff_t j = A.ptr[i]; j < A.ptr[i + 1]; ++j) {
        ptrdiff_t c = A.col[j];
        if (c == i) { A.val[j] = g[i] * A.val[j]; continue; }
        uint32_t h = (static_cast<uint32_t>(std::min(i, c)) * 2654435761u) ^ (static_cast<uint32_t>(std::max(i, c)) * 40503u) ^ salt; h ^= h >> 13; h *= 0x5bd1e995u; h ^= h >> 15;
        double f = 0.5 + 0.5 * (h % 1024) / 1023.0;
        A.val[j] = f * A.val[j];
    }
    return A;
}
template <class V> Csr<V> scaled_copy(const Csr<V> &A, int k) { Csr<V> B = A; double f = std::ldexp(1.0, k); for (auto &v : B.val) v = f * v; return B; }

template <class V> std::vector<typename amgcl::math::rhs_of<V>::type> gen_rhs(Tape &t, size_t n, cplx *) { std::vector<cplx> v(n); for (auto &x : v) x = cplx(t.uni(-1.0, 1.0), t.uni(-1.0, 1.0)); return v; }
template <class V> std::vector<typename amgcl::math::rhs_of<V>::type> gen_rhs(Tape &t, size_t n, blk2 *) { std::vector<typename amgcl::math::rhs_of<V>::type> v(n); for (auto &x : v) { x(0) = t.uni(-1.0, 1.0); x(1) = t.uni(-1.0, 1.0); } return v; }

template <class AMG, class Rhs> std::vector<Rhs> amg_apply(const AMG &amg, const std::vector<Rhs> &v) { std::vector<Rhs> x(v.size(), amgcl::math::zero<Rhs>()); amg.apply(v, x); return x; }

// ------------------------------------------------------------------ coarsening parameters
struct CoarseInfo { std::string name; bool r_is_adjoint = true, scaled = false; float over_interp = 1.0f; };
template <template <class> class C, class B> struct Setup;
template <class B> struct Setup<co::aggregation, B> {
    static void fill(typename co::aggregation<B>::params &p, Tape &t, CoarseInfo &ci, std::ostringstream &d) {
        ci.name = "aggregation"; p.aggr.eps_strong = cm::gen_eps_strong(t);
        if (t.b()) { static const float oi[] = {1.5f, 1.0f, 2.0f, 1.25f}; p.over_interp = oi[t.pick(4)]; } // else the default (2.0 for block values, 1.5 for scalars)
        ci.scaled = true; ci.over_interp = p.over_interp;
        d << " eps_strong=" << cm::fmt_float(p.aggr.eps_strong) << " over_interp=" << cm::fmt_float(p.over_interp);
    }
};
template <class B> struct Setup<co::smoothed_aggregation, B> {
    static void fill(typename co::smoothed_aggregation<B>::params &p, Tape &t, CoarseInfo &ci, std::ostringstream &d) {
        ci.name = "smoothed_aggregation"; p.aggr.eps_strong = cm::gen_eps_strong(t);
        p.relax = t.b() ? 1.0f : static_cast<float>(t.uni(0.5, 1.5));
        p.estimate_spectral_radius = t.b(); p.power_iters = p.estimate_spectral_radius && t.chance(1, 3) ? static_cast<int>(t.u(1, 5)) : 0;
        d << " eps_strong=" << cm::fmt_float(p.aggr.eps_strong) << " relax=" << cm::fmt_float(p.relax) << " estimate_spectral_radius=" << p.estimate_spectral_radius << " power_iters=" << p.power_iters;
    }
};
template <class B> struct Setup<co::smoothed_aggr_emin, B> {
    static void fill(typename co::smoothed_aggr_emin<B>::params &p, Tape &t, CoarseInfo &ci, std::ostringstream &d) {
        ci.name = "smoothed_aggr_emin"; ci.r_is_adjoint = false; p.aggr.eps_strong = cm::gen_eps_strong(t);
        d << " eps_strong=" << cm::fmt_float(p.aggr.eps_strong);
    }
};
template <template <class> class R> struct RelaxName;
template <> struct RelaxName<rx::spai0> { static const char *name() { return "spai0"; } };
template <> struct RelaxName<rx::damped_jacobi> { static const char *name() { return "damped_jacobi"; } };
template <> struct RelaxName<rx::gauss_seidel> { static const char *name() { return "gauss_seidel"; } };

// ------------------------------------------------------------------ the property
template <class V, template <class> class C, template <class> class Rlx>
void run_history(Tape &t, Ctx &c) {
    typedef amgcl::backend::builtin<V> Backend;
    typedef amgcl::amg<Backend, recording<C, V>::template type, Rlx> AMG;
    typedef amgcl::amg<Backend, replaying<V>::template type, Rlx> FreshAMG;
    typedef typename amgcl::math::rhs_of<V>::type Rhs;

    int nmax; switch (t.u(0, 3)) { case 0: nmax = 10; break; case 1: case 2: nmax = 40; break; default: nmax = 120; }
    Graph g = gen_graph(t, nmax);
    std::string fam;
    Csr<V> K0 = gen_values(t, g, static_cast<V *>(nullptr), fam);
    bool shuffled = t.chance(1, 4);
    if (shuffled) shuffle_rows(t, K0);
    ptrdiff_t n = K0.n;

    std::ostringstream pd; CoarseInfo ci;
    typename AMG::params prm;
    auto log = std::make_shared<Log<V>>();
    prm.coarsening.log = log;
    Setup<C, Backend>::fill(prm.coarsening, t, ci, pd);
    {
        static const unsigned ce[] = {2, 0, 1, 3, 5, 2, 1, 3, 10};
        prm.coarse_enough = ce[t.pick(9)];
        int ml = static_cast<int>(t.u(0, 7));
        prm.max_levels = ml == 0 || ml > 4 ? std::numeric_limits<unsigned>::max() : static_cast<unsigned>(ml);
        prm.direct_coarse = !t.chance(1, 4);
        prm.npre = static_cast<unsigned>(t.u(1, 3)) % 3; prm.npost = static_cast<unsigned>(t.u(1, 3)) % 3;
        prm.ncycle = static_cast<unsigned>(t.u(1, 2)); prm.pre_cycles = t.chance(1, 10) ? 2u : 1u;
        prm.allow_rebuild = true;
        if (prm.ncycle > 1 && prm.max_levels > 6) prm.max_levels = 6; // W-cycle cost guard
    }
    int hlen = static_cast<int>(t.u(0, 5));
    c.desc << "history<" << VT<V>::name() << "> " << ci.name << " x " << RelaxName<Rlx>::name() << " " << fam << "/" << g.family << " n=" << n << (shuffled ? " (unsorted input rows)" : "") << pd.str()
           << " coarse_enough=" << prm.coarse_enough << " max_levels=" << prm.max_levels << " direct_coarse=" << prm.direct_coarse << " npre=" << prm.npre << " npost=" << prm.npost
           << " ncycle=" << prm.ncycle << " pre_cycles=" << prm.pre_cycles << " threads=" << c.threads << " ops=" << hlen << " K=" << dump_small(K0, 5) << " |";
    c.label(std::string("value:") + VT<V>::name()); c.label("coarsening:" + ci.name); c.label(std::string("relax:") + RelaxName<Rlx>::name()); c.label("fam:" + fam);
    c.label(n <= 10 ? "n<=10" : n <= 40 ? "n<=40" : "n>40"); if (shuffled) c.label("unsorted-input");

    std::unique_ptr<AMG> amg;
    {
        auto k0 = to_crs<V>(K0);
        try { amg.reset(new AMG(*k0, prm)); }
        catch (const std::runtime_error &e) { c.label("ctor-rejected"); c.desc << " constructor rejected the matrix: " << e.what(); return; }
    }
    auto lv = amgcl_verif::access::levels<V>(*amg);
    const size_t L = lv.size(), T = log->transfers.size();
    c.label("levels=" + std::to_string(std::min<size_t>(L, 4)) + (L >= 4 ? "+" : ""));
    VF_REQUIRE(L >= 1 && log->coarse.size() == T && L == T + 1 && log->empty_levels <= 1, "hierarchy has " << L << " levels after " << T << " coarsening steps, " << log->coarse.size() << " coarse operators, " << log->empty_levels << " empty-level signals");
    for (auto &r : log->coarse) VF_REQUIRE(all_finite(r.P) && all_finite(r.R) && all_finite(r.Ac), "transfer or coarse operators contain non-finite values");

    ld worst = 0; long nonself = 0;
    auto check_levels = [&](const std::vector<LevelView<V>> &v, const Log<V> &lg, const Csr<V> &Ks, bool construction, const std::string &when) {
        size_t ncoarse = lg.coarse.size();
        Csr<V> cur = Ks;
        for (size_t l = 0; l < v.size(); ++l) {
            VF_REQUIRE(static_cast<ptrdiff_t>(v[l].rows) == cur.n, when << ": level " << l << " reports " << v[l].rows << " rows, its matrix has " << cur.n);
            if (v[l].A) { require_wellformed(*v[l].A, when + ": level matrix", true, true); VF_REQUIRE(same_bits(from_crs(*v[l].A), cur), when << ": matrix held by level " << l << " differs from " << (l == 0 ? "the (row-sorted) system matrix" : "the sorted result of coarse_operator on the level above")); }
            else VF_REQUIRE(v[l].solve && l + 1 == v.size() && l > 0, when << ": level " << l << " holds no matrix but is not a direct-solver coarsest level");
            if (l < ncoarse) {
                const CoarseRec<V> &r = lg.coarse[l];
                VF_REQUIRE(same_bits(r.A, cur), when << ": coarse_operator on level " << l << " was given a matrix different from the level matrix");
                if (construction) {
                    const TransferRec<V> &tr = lg.transfers[l];
                    VF_REQUIRE(same_bits(tr.A, cur), when << ": transfer_operators on level " << l << " was given a matrix different from the level matrix");
                    VF_REQUIRE(same_bits(r.P, sorted_copy(tr.P)) && same_bits(r.R, sorted_copy(tr.R)), when << ": coarse_operator on level " << l << " did not receive the (row-sorted) operators returned by transfer_operators");
                    if (ci.r_is_adjoint) nonself += require_adjoint(tr.P, tr.R, when + ": level " + std::to_string(l) + " restriction");
                    else for (auto &x : tr.P.val) if (!VT<V>::self_adjoint(x)) ++nonself;
                    VF_REQUIRE(tr.P.n == cur.n && tr.R.m == cur.n && tr.P.m == tr.R.n, when << ": level " << l << " transfer operator shapes");
                    VF_REQUIRE(tr.P.m < cur.n, when << ": level " << l + 1 << " has " << tr.P.m << " unknowns, level " << l << " has " << cur.n << " (sizes must strictly decrease)");
                }
                VF_REQUIRE(v[l].P && v[l].R && same_bits(from_crs(*v[l].P), r.P) && same_bits(from_crs(*v[l].R), r.R), when << ": operators stored in level " << l << " differ from those used for the coarse operator");
                worst = std::max(worst, require_galerkin(r.Ac, r.R, r.A, r.P, ci.scaled, ci.over_interp, when + ": level " + std::to_string(l + 1)));
                cur = sorted_copy(r.Ac);
            } else {
                VF_REQUIRE(l + 1 == v.size() && !v[l].P && !v[l].R && !v[l].bP && !v[l].bR, when << ": level " << l << " without coarse operator must be the last one and carry no transfer operators");
            }
            if (l + 1 < v.size()) VF_REQUIRE(v[l].relax && !v[l].solve, when << ": intermediate level " << l << " must own a smoother and no direct solver");
        }
        VF_REQUIRE(ncoarse + 1 == v.size(), when << ": " << ncoarse << " coarse operators for " << v.size() << " levels");
        const LevelView<V> &last = v.back();
        bool small = last.rows <= prm.coarse_enough;
        VF_REQUIRE(last.solve == (small && prm.direct_coarse) && last.solve != last.relax, when << ": last level has " << last.rows << " unknowns, coarse_enough=" << prm.coarse_enough << ", direct_coarse=" << prm.direct_coarse
                   << ", direct solver " << last.solve << ", smoother " << last.relax);
    };
    Csr<V> K0s = sorted_copy(K0);
    check_levels(lv, *log, K0s, true, "construction");
    if (lv.back().rows > prm.coarse_enough) VF_REQUIRE(L >= prm.max_levels || log->empty_levels == 1, "coarsening stopped above coarse_enough without reaching max_levels or an empty level");
    for (size_t l = 0; l < T; ++l) VF_REQUIRE(lv[l].bP && lv[l].bR && same_bits(from_crs(*lv[l].bP), log->coarse[l].P) && same_bits(from_crs(*lv[l].bR), log->coarse[l].R), "level " << l << ": retained build operators missing or different");
    if (nonself) c.label("P-carries-non-self-adjoint-entries");

    auto ops = std::make_shared<StoredOps<V>>();
    std::vector<Csr<V>> P0, R0;
    for (size_t l = 0; l < T; ++l) { ops->pr.push_back(std::make_pair(log->coarse[l].P, log->coarse[l].R)); P0.push_back(log->coarse[l].P); R0.push_back(log->coarse[l].R); }
    typename FreshAMG::params fprm;
    fprm.relax = prm.relax; fprm.coarse_enough = prm.coarse_enough; fprm.direct_coarse = prm.direct_coarse; fprm.max_levels = prm.max_levels;
    fprm.npre = prm.npre; fprm.npost = prm.npost; fprm.ncycle = prm.ncycle; fprm.pre_cycles = prm.pre_cycles; fprm.allow_rebuild = true;
    fprm.coarsening.ops = ops; fprm.coarsening.scaled = ci.scaled; fprm.coarsening.scale = 1 / ci.over_interp;
    auto lv0 = lv;

    std::vector<Rhs> v0 = gen_rhs<V>(t, static_cast<size_t>(n), static_cast<V *>(nullptr));
    std::vector<std::pair<std::vector<Rhs>, std::vector<Rhs>>> orig_io;
    orig_io.push_back(std::make_pair(v0, amg_apply(*amg, v0)));
    { auto k0 = to_crs<V>(K0); FreshAMG fresh(*k0, fprm); VF_REQUIRE(same_bits(amg_apply(fresh, v0), orig_io[0].second), "construction: apply differs from a hierarchy assembled from the same operators"); }
    bool is_orig = true, changed_applied = false;
    Csr<V> Kcur = K0;
    for (int op = 0; op < hlen; ++op) {
        int kind = static_cast<int>(t.u(0, 3)); // 0 apply, 1 rebuild(perturbed), 2 rebuild(2^k A), 3 rebuild(original)
        if (kind == 0) {
            std::vector<Rhs> v = gen_rhs<V>(t, static_cast<size_t>(n), static_cast<V *>(nullptr));
            c.desc << " apply";
            auto x = amg_apply(*amg, v);
            auto kc = to_crs<V>(Kcur); FreshAMG fresh(*kc, fprm);
            VF_REQUIRE(same_bits(x, amg_apply(fresh, v)), "op " << op << ": apply(v) differs from a fresh hierarchy assembled from the current matrix with the same transfer operators");
            if (is_orig) orig_io.push_back(std::make_pair(v, x));
            continue;
        }
        Csr<V> Knew;
        if (kind == 1) { Knew = perturb(t, K0); c.desc << " rebuild(perturbed)"; c.label("op:rebuild-perturbed"); }
        else if (kind == 2) { int k = static_cast<int>(t.u(1, 6)); k = k <= 3 ? k : 3 - k; Knew = scaled_copy(K0, k); c.desc << " rebuild(2^" << k << "*A)"; c.label("op:rebuild-scaled"); }
        else { Knew = K0; c.desc << " rebuild(original)"; c.label("op:rebuild-original"); }
        auto kc = to_crs<V>(Knew);
        log->clear();
        bool rebuilt = true; std::string why;
        try { amg->rebuild(*kc); } catch (const std::runtime_error &e) { rebuilt = false; why = e.what(); }
        std::unique_ptr<FreshAMG> fresh; bool fresh_ok = true;
        try { fresh.reset(new FreshAMG(*kc, fprm)); } catch (const std::runtime_error &) { fresh_ok = false; }
        VF_REQUIRE(rebuilt == fresh_ok, "op " << op << ": rebuild " << (rebuilt ? "succeeded" : "failed (" + why + ")") << " but a fresh hierarchy from the same matrix and operators " << (fresh_ok ? "succeeded" : "failed"));
        if (!rebuilt) { c.label("rebuild-rejected"); break; }
        Kcur = Knew; is_orig = kind == 3;
        for (auto &r : log->coarse) VF_REQUIRE(all_finite(r.Ac), "op " << op << ": rebuild produced non-finite coarse matrices");
        auto lw = amgcl_verif::access::levels<V>(*amg);
        std::string when = "op " + std::to_string(op) + " (after rebuild)";
        VF_REQUIRE(lw.size() == L && log->transfers.empty() && log->empty_levels == 0, when << ": number of levels changed or transfer operators were recomputed");
        for (size_t l = 0; l < L; ++l) {
            VF_REQUIRE(lw[l].P == lv0[l].P && lw[l].R == lv0[l].R && lw[l].bP == lv0[l].bP && lw[l].bR == lv0[l].bR, when << ": level " << l << " transfer operator objects were replaced");
            if (l < T) VF_REQUIRE(same_bits(from_crs(*lw[l].bP), P0[l]) && same_bits(from_crs(*lw[l].bR), R0[l]), when << ": level " << l << " transfer operators changed");
        }
        check_levels(lw, *log, sorted_copy(Knew), false, when);
        auto lf = amgcl_verif::access::levels<V>(*fresh);
        VF_REQUIRE(lf.size() == L, when << ": model hierarchy has " << lf.size() << " levels");
        for (size_t l = 0; l < L; ++l) if (lw[l].A) VF_REQUIRE(lf[l].A && same_bits(from_crs(*lw[l].A), from_crs(*lf[l].A)), when << ": level " << l << " matrix differs from the model hierarchy");
        auto x = amg_apply(*amg, v0);
        VF_REQUIRE(same_bits(x, amg_apply(*fresh, v0)), when << ": apply(v0) differs from a fresh hierarchy assembled from A' with the same transfer operators");
        if (kind != 3) changed_applied = true;
        if (kind == 3) for (auto &io : orig_io) VF_REQUIRE(same_bits(amg_apply(*amg, io.first), io.second), when << ": rebuild(original) did not restore the original action");
    }
    c.nontrivial = L >= 2 && nonself > 0;
    if (c.nontrivial) c.label("nt:>=2-levels+non-self-adjoint-P");
    if (L >= 2 && changed_applied) c.label("changed-rebuild-then-apply");
    if (worst > 0.05) c.label("galerkin-err>0.05tol");
    if (worst > 0.5) c.label("galerkin-err>0.5tol");
}

} // namespace c03v
