// C05 — Krylov iterates, real systems (double). Body: c05_krylov.hpp (rev 1)
#include "c05_krylov.hpp"
static std::vector<vf::Prop> props() { return c05::props<double>("real"); }
static std::vector<vf::Enum> enums() { return {}; }
VF_MAIN(props(), enums())
