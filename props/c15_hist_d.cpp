// C15 (part D) — call histories on make_block_solver (2x2 static_matrix values).
// Model, clauses and the history decoder: props/c15_common.hpp; object kinds: props/c15_kinds.hpp.
#include "c15_kinds.hpp"

static std::vector<Prop> props() {
    return {
        Prop("hist_block", run_history<KBlock>, 1000, 10000, 100, 10, {1}, 2, 8),
    };
}
static std::vector<Enum> enums() { return {}; }
VF_MAIN(props(), enums())
