// C19 oracle pieces: value generators (all finite classes, bit patterns), reader wrappers, validity predicates,
// slice comparison.  Everything is bitwise (memcmp).
#pragma once
#include <cfloat>
#include <climits>
#include <cmath>
#include <complex>
#include <memory>
#include <set>
#include <amgcl/backend/builtin.hpp>
#include <amgcl/value_type/complex.hpp>
#include <amgcl/adapter/crs_tuple.hpp>
#include <amgcl/io/mm.hpp>
#include <amgcl/io/binary.hpp>
#include "../common/harness.hpp"
#include "../common/gen.hpp"
#include "c19_files.hpp"

namespace c19 {
using vf::Tape; using vf::Ctx; using vf::Csr;
namespace io = amgcl::io;
typedef std::complex<double> cplx;
typedef std::set<std::string> Classes;
typedef std::vector<std::pair<ptrdiff_t, ptrdiff_t>> Ranges;

template <class T> bool bits_equal(const T &a, const T &b) { return memcmp(&a, &b, sizeof(T)) == 0; }
template <class T> bool vec_bits_equal(const std::vector<T> &a, const std::vector<T> &b) {
    return a.size() == b.size() && (a.empty() || memcmp(a.data(), b.data(), a.size() * sizeof(T)) == 0);
}

// ------------------------------------------------------------------ values
static const uint64_t MANT = 0xFFFFFFFFFFFFFull;
inline double dbl_bits(uint64_t b) { double d; memcpy(&d, &b, 8); return d; }
inline float flt_bits(uint32_t b) { float d; memcpy(&d, &b, 4); return d; }
inline uint64_t rnd64(Tape &t) { uint64_t hi = static_cast<uint64_t>(t.u(0, 0xffffffffLL)), lo = static_cast<uint64_t>(t.u(0, 0xffffffffLL)); return (hi << 32) | lo; }

// text: only finite values (NaN/Inf are not representable in MatrixMarket); binary: any bit pattern
inline double gen_double(Tape &t, bool text, Classes &cl) {
    int cls = static_cast<int>(t.u(0, text ? 7 : 8));
    switch (cls) {
    case 0: cl.insert("v:small-int"); return static_cast<double>(t.u(1, 9));
    case 1: cl.insert("v:signed-zero"); return t.b() ? -0.0 : 0.0;
    case 2: { cl.insert("v:denormal"); uint64_t s = t.b(); uint64_t m = rnd64(t) & MANT; if (!m) m = 1; return dbl_bits((s << 63) | m); }
    case 3: { cl.insert("v:extreme-exponent"); static const uint64_t ex[] = {1, 2, 2045, 2046}; uint64_t s = t.b(); uint64_t e = ex[t.pick(4)]; return dbl_bits((s << 63) | (e << 52) | (rnd64(t) & MANT)); }
    case 4: { cl.insert("v:random-bits"); uint64_t r = rnd64(t); uint64_t e = ((r >> 52) & 0x7ff) % 2047; return dbl_bits((r & ~(0x7ffull << 52)) | (e << 52)); }
    case 5: { cl.insert("v:decimal"); double k = static_cast<double>(t.u(-99999, 99999)); int s = static_cast<int>(t.u(0, 8)); return k / std::pow(10.0, s); }
    case 6: { cl.insert("v:limit");
        static const double L[] = {DBL_MAX, DBL_MIN, 4.9406564584124654e-324, DBL_EPSILON, 1 + DBL_EPSILON, 1 - DBL_EPSILON / 2, 0.1, 1.0 / 3, 1e22, 1e23};
        double v = L[t.pick(10)]; return t.b() ? -v : v; }
    case 7: { cl.insert("v:17-digit"); uint64_t s = t.b(); return dbl_bits((s << 63) | (1023ull << 52) | (rnd64(t) & MANT)); }
    default: { cl.insert("v:nan-inf"); uint64_t s = t.b(); uint64_t m = t.b() ? (rnd64(t) & MANT) : 0; return dbl_bits((s << 63) | (0x7ffull << 52) | m); }
    }
}
inline float gen_float(Tape &t, bool text, Classes &cl) {
    int cls = static_cast<int>(t.u(0, text ? 4 : 5));
    switch (cls) {
    case 0: cl.insert("v:small-int"); return static_cast<float>(t.u(1, 9));
    case 1: cl.insert("v:signed-zero"); return t.b() ? -0.0f : 0.0f;
    case 2: { cl.insert("v:denormal"); uint32_t s = t.b(); uint32_t m = static_cast<uint32_t>(t.u(1, 0x7FFFFF)); return flt_bits((s << 31) | m); }
    case 3: { cl.insert("v:random-bits"); uint32_t r = static_cast<uint32_t>(t.u(0, 0xffffffffLL)); uint32_t e = ((r >> 23) & 0xff) % 255; return flt_bits((r & ~(0xffu << 23)) | (e << 23)); }
    case 4: { cl.insert("v:limit"); static const float L[] = {FLT_MAX, FLT_MIN, 1.4e-45f, FLT_EPSILON, 0.1f, 1.0f / 3}; float v = L[t.pick(6)]; return t.b() ? -v : v; }
    default: { cl.insert("v:nan-inf"); uint32_t s = t.b(); uint32_t m = t.b() ? static_cast<uint32_t>(t.u(1, 0x7FFFFF)) : 0; return flt_bits((s << 31) | (0xffu << 23) | m); }
    }
}

template <class V> struct VT;
template <> struct VT<double> {
    static const char *name() { return "double"; }
    static double gen(Tape &t, bool text, Classes &cl) { return gen_double(t, text, cl); }
    static std::string show(double v) { char b[64]; snprintf(b, sizeof b, "%a", v); return b; }
};
template <> struct VT<float> {
    static const char *name() { return "float"; }
    static float gen(Tape &t, bool text, Classes &cl) { return gen_float(t, text, cl); }
    static std::string show(float v) { char b[64]; snprintf(b, sizeof b, "%a", static_cast<double>(v)); return b; }
};
template <> struct VT<cplx> {
    static const char *name() { return "complex"; }
    static cplx gen(Tape &t, bool text, Classes &cl) { double re = gen_double(t, text, cl), im = gen_double(t, text, cl); return cplx(re, im); }
    static std::string show(cplx v) { return "(" + VT<double>::show(v.real()) + "," + VT<double>::show(v.imag()) + ")"; }
};
template <> struct VT<int> {
    static const char *name() { return "int"; }
    static int gen(Tape &t, bool, Classes &cl) {
        switch (static_cast<int>(t.u(0, 2))) {
        case 0: { cl.insert("v:small-int"); int v = static_cast<int>(t.u(1, 9)); return t.b() ? -v : v; }
        case 1: { cl.insert("v:limit"); static const int L[] = {INT_MAX, INT_MIN, 0, -1}; return L[t.pick(4)]; }
        default: { cl.insert("v:random-bits"); uint32_t r = static_cast<uint32_t>(t.u(0, 0xffffffffLL)); int v; memcpy(&v, &r, 4); return v; }
        }
    }
    static std::string show(int v) { return std::to_string(v); }
};
template <> struct VT<long long> {
    static const char *name() { return "int64"; }
    static long long gen(Tape &t, bool, Classes &cl) {
        switch (static_cast<int>(t.u(0, 2))) {
        case 0: { cl.insert("v:small-int"); long long v = t.u(1, 9); return t.b() ? -v : v; }
        case 1: { cl.insert("v:limit"); static const long long L[] = {LLONG_MAX, LLONG_MIN, 0, -1}; return L[t.pick(4)]; }
        default: { cl.insert("v:random-bits"); uint64_t r = rnd64(t); long long v; memcpy(&v, &r, 8); return v; }
        }
    }
    static std::string show(long long v) { return std::to_string(v); }
};

template <class V>
std::string dump_vals(const std::vector<V> &v, size_t maxn = 8) {
    std::string s = "[";
    for (size_t i = 0; i < v.size() && i < maxn; ++i) s += (i ? " " : "") + VT<V>::show(v[i]);
    if (v.size() > maxn) s += " ...";
    return s + "]";
}

// shape + pattern + values; word 0 -> 0x0
template <class V>
Csr<V> gen_matrix(Tape &t, bool text, bool &sorted, Classes &cl, int big = 30) {
    int cls = static_cast<int>(t.u(0, 3));
    int hi = cls == 0 ? 3 : cls == 1 ? 6 : cls == 2 ? 12 : big;
    ptrdiff_t n = t.u(0, hi), m = t.b() ? n : t.u(0, hi);
    sorted = !t.chance(1, 3);
    Csr<double> S = vf::gen_sparse_int(t, n, m, 1, sorted);
    Csr<V> A; A.n = n; A.m = m; A.ptr = S.ptr; A.col = S.col; A.val.resize(S.val.size());
    for (auto &v : A.val) v = VT<V>::gen(t, text, cl);
    return A;
}

inline Ranges gen_ranges(Tape &t, ptrdiff_t n) {
    Ranges r;
    if (n <= 5) {
        for (ptrdiff_t b = 0; b <= n; ++b) for (ptrdiff_t e = b; e <= n; ++e) r.push_back(std::make_pair(b, e));
    } else {
        r = {{0, n}, {0, 1}, {n - 1, n}, {0, 0}, {n, n}, {n / 2, n}, {1, n - 1}};
        for (int k = 0; k < 5; ++k) { ptrdiff_t b = t.u(0, n), e = t.u(b, n); r.push_back(std::make_pair(b, e)); }
    }
    r.push_back(std::make_pair(ptrdiff_t(-1), n / 2)); // negative bound = "from the start" / "to the end"
    r.push_back(std::make_pair(n / 2, ptrdiff_t(-1)));
    return r;
}

// ------------------------------------------------------------------ reader wrappers
template <class Idx, class V>
struct SpRead { size_t rows = 0, cols = 0, hrows = 0, hcols = 0; bool sparse = false, sym = false, cx = false, integer = false; std::vector<Idx> ptr, col; std::vector<V> val; };

template <class Idx, class V>
SpRead<Idx, V> read_sp(const std::string &path, ptrdiff_t b = -1, ptrdiff_t e = -1) {
    io::mm_reader r(path);
    SpRead<Idx, V> R;
    R.hrows = r.rows(); R.hcols = r.cols(); R.sparse = r.is_sparse(); R.sym = r.is_symmetric(); R.cx = r.is_complex(); R.integer = r.is_integer();
    std::tie(R.rows, R.cols) = r(R.ptr, R.col, R.val, b, e);
    return R;
}

template <class V>
struct DnRead { size_t rows = 0, cols = 0, hrows = 0, hcols = 0; bool sparse = false, sym = false, cx = false, integer = false; std::vector<V> val; };

template <class V>
DnRead<V> read_dn(const std::string &path, ptrdiff_t b = -1, ptrdiff_t e = -1) {
    io::mm_reader r(path);
    DnRead<V> R;
    R.hrows = r.rows(); R.hcols = r.cols(); R.sparse = r.is_sparse(); R.sym = r.is_symmetric(); R.cx = r.is_complex(); R.integer = r.is_integer();
    std::tie(R.rows, R.cols) = r(R.val, b, e);
    return R;
}

template <class S, class P, class C, class V>
struct CrsRead { S n = 0; std::vector<P> ptr; std::vector<C> col; std::vector<V> val; };

template <class S, class P, class C, class V>
CrsRead<S, P, C, V> read_bc(const std::string &path, ptrdiff_t b = -1, ptrdiff_t e = -1) {
    CrsRead<S, P, C, V> R;
    io::read_crs(path, R.n, R.ptr, R.col, R.val, b, e);
    return R;
}

template <class S, class V>
struct BdRead { S n = 0, m = 0; std::vector<V> val; };

template <class S, class V>
BdRead<S, V> read_bd(const std::string &path, ptrdiff_t b = -1, ptrdiff_t e = -1) {
    BdRead<S, V> R;
    io::read_dense(path, R.n, R.m, R.val, b, e);
    return R;
}

inline void bounds(ptrdiff_t b, ptrdiff_t e, ptrdiff_t n, ptrdiff_t &bb, ptrdiff_t &ee) { bb = b < 0 ? 0 : b; ee = e < 0 ? n : e; }

// ------------------------------------------------------------------ validity predicates (throw vf::Fail)
template <class P, class C>
void require_crs_arrays(size_t rows, const std::vector<P> &ptr, const std::vector<C> &col, size_t nval, const std::string &what) {
    VF_REQUIRE(ptr.size() == rows + 1, what << ": |ptr|=" << ptr.size() << " for " << rows << " rows");
    VF_REQUIRE(ptr[0] == 0, what << ": ptr[0]=" << ptr[0]);
    for (size_t i = 0; i < rows; ++i) VF_REQUIRE(ptr[i] <= ptr[i + 1], what << ": ptr decreases at row " << i << " (" << ptr[i] << " > " << ptr[i + 1] << ")");
    VF_REQUIRE(static_cast<size_t>(ptr[rows]) == col.size() && col.size() == nval, what << ": ptr[n]=" << ptr[rows] << " |col|=" << col.size() << " |val|=" << nval);
    for (size_t i = 0; i < rows; ++i) for (P j = ptr[i] + 1; j < ptr[i + 1]; ++j)
        VF_REQUIRE(col[j - 1] <= col[j], what << ": row " << i << " is not sorted by column (" << col[j - 1] << " before " << col[j] << ")");
}

template <class Idx, class V>
void validate_sp(const SpRead<Idx, V> &R, ptrdiff_t b, ptrdiff_t e, const std::string &what) {
    ptrdiff_t bb, ee; bounds(b, e, static_cast<ptrdiff_t>(R.hrows), bb, ee);
    VF_REQUIRE(static_cast<ptrdiff_t>(R.rows) == ee - bb, what << ": returned " << R.rows << " rows for range [" << bb << "," << ee << ") of a " << R.hrows << "-row file");
    VF_REQUIRE(R.cols == R.hcols, what << ": returned " << R.cols << " columns, header says " << R.hcols);
    require_crs_arrays(R.rows, R.ptr, R.col, R.val.size(), what);
    for (size_t j = 0; j < R.col.size(); ++j)
        VF_REQUIRE(R.col[j] >= 0 && static_cast<size_t>(R.col[j]) < R.cols, what << ": column index " << R.col[j] << " outside [0," << R.cols << ")");
}

template <class V>
void validate_dn(const DnRead<V> &R, ptrdiff_t b, ptrdiff_t e, const std::string &what) {
    ptrdiff_t bb, ee; bounds(b, e, static_cast<ptrdiff_t>(R.hrows), bb, ee);
    VF_REQUIRE(R.rows == static_cast<size_t>(ee - bb), what << ": returned " << R.rows << " rows for range [" << bb << "," << ee << ")");
    VF_REQUIRE(R.cols == R.hcols, what << ": returned " << R.cols << " columns, header says " << R.hcols);
    VF_REQUIRE(static_cast<unsigned __int128>(R.rows) * R.cols == R.val.size(), what << ": " << R.rows << " x " << R.cols << " array returned with " << R.val.size() << " values");
}

template <class S, class P, class C, class V>
void validate_bc(const CrsRead<S, P, C, V> &R, ptrdiff_t b, ptrdiff_t e, const std::string &what) {
    VF_REQUIRE(static_cast<ptrdiff_t>(R.n) >= 0, what << ": negative size " << R.n);
    ptrdiff_t bb, ee; bounds(b, e, static_cast<ptrdiff_t>(R.n), bb, ee);
    VF_REQUIRE(bb <= ee && ee <= static_cast<ptrdiff_t>(R.n), what << ": accepted row range [" << bb << "," << ee << ") of " << R.n << " rows");
    require_crs_arrays(static_cast<size_t>(ee - bb), R.ptr, R.col, R.val.size(), what);
}

template <class S, class V>
void validate_bd(const BdRead<S, V> &R, ptrdiff_t b, ptrdiff_t e, const std::string &what) {
    VF_REQUIRE(static_cast<ptrdiff_t>(R.n) >= 0, what << ": size " << R.n << " is negative as ptrdiff_t, " << R.val.size() << " values returned");
    ptrdiff_t bb, ee; bounds(b, e, static_cast<ptrdiff_t>(R.n), bb, ee);
    VF_REQUIRE(bb <= ee && ee <= static_cast<ptrdiff_t>(R.n), what << ": accepted row range [" << bb << "," << ee << ") of " << R.n << " rows");
    VF_REQUIRE(static_cast<unsigned __int128>(static_cast<size_t>(ee - bb)) * R.m == R.val.size(),
               what << ": " << (ee - bb) << " x " << R.m << " block returned with " << R.val.size() << " values");
}

// range read == slice [bb,ee) of the full read, bitwise
template <class P, class C, class V>
void require_slice(const std::vector<P> &fptr, const std::vector<C> &fcol, const std::vector<V> &fval,
                   const std::vector<P> &ptr, const std::vector<C> &col, const std::vector<V> &val, ptrdiff_t bb, ptrdiff_t ee, const std::string &what) {
    VF_REQUIRE(bb >= 0 && bb <= ee && static_cast<size_t>(ee) < fptr.size(), what << ": range [" << bb << "," << ee << ") accepted for " << fptr.size() - 1 << " rows");
    VF_REQUIRE(ptr.size() == static_cast<size_t>(ee - bb + 1), what << ": |ptr|=" << ptr.size());
    for (ptrdiff_t i = 0; i <= ee - bb; ++i)
        VF_REQUIRE(ptr[i] == fptr[bb + i] - fptr[bb], what << ": ptr[" << i << "]=" << ptr[i] << ", slice of the full read has " << fptr[bb + i] - fptr[bb]);
    size_t off = static_cast<size_t>(fptr[bb]), len = static_cast<size_t>(fptr[ee] - fptr[bb]);
    VF_REQUIRE(col.size() == len && val.size() == len, what << ": " << col.size() << " entries, slice has " << len);
    for (size_t k = 0; k < len; ++k) {
        VF_REQUIRE(col[k] == fcol[off + k], what << ": entry " << k << " column " << col[k] << ", slice has " << fcol[off + k]);
        VF_REQUIRE(bits_equal(val[k], fval[off + k]), what << ": entry " << k << " value differs from the full read");
    }
}

template <class V>
void require_dense_slice(const std::vector<V> &full, size_t m, const std::vector<V> &part, ptrdiff_t bb, ptrdiff_t ee, const std::string &what) {
    VF_REQUIRE(part.size() == static_cast<size_t>(ee - bb) * m, what << ": " << part.size() << " values for rows [" << bb << "," << ee << ") x " << m);
    for (size_t k = 0; k < part.size(); ++k)
        VF_REQUIRE(bits_equal(part[k], full[static_cast<size_t>(bb) * m + k]), what << ": value " << k << " differs from the full read");
}

// ------------------------------------------------------------------ writers (binary layout exactly as examples/mm2bin.cpp)
template <class S, class P, class C, class V, class W>
void write_bin_crs(const std::string &path, const Csr<W> &A) {
    std::ofstream f(fresh(path).c_str(), std::ios::binary);
    S rows = static_cast<S>(A.n);
    std::vector<P> ptr(A.ptr.begin(), A.ptr.end());
    std::vector<C> col(A.col.begin(), A.col.end());
    std::vector<V> val(A.val.begin(), A.val.end());
    bool ok = io::write(f, rows) && io::write(f, ptr) && io::write(f, col) && io::write(f, val);
    if (!ok) throw std::runtime_error("harness: io::write failed");
}
template <class S, class V>
void write_bin_dense(const std::string &path, size_t n, size_t m, const std::vector<V> &v) {
    std::ofstream f(fresh(path).c_str(), std::ios::binary);
    S rows = static_cast<S>(n), cols = static_cast<S>(m);
    bool ok = io::write(f, rows) && io::write(f, cols) && io::write(f, v);
    if (!ok) throw std::runtime_error("harness: io::write failed");
}

template <class V>
void write_mm_sparse(const std::string &path, const Csr<V> &A, bool via_tuple) {
    if (via_tuple && A.n == A.m) {
        size_t n = static_cast<size_t>(A.n);
        std::vector<ptrdiff_t> ptr = A.ptr, col = A.col; std::vector<V> val = A.val;
        auto tup = std::tie(n, ptr, col, val);
        io::mm_write(fresh(path), tup);
    } else {
        amgcl::backend::crs<V, ptrdiff_t, ptrdiff_t> M(static_cast<size_t>(A.n), static_cast<size_t>(A.m), A.ptr, A.col, A.val);
        io::mm_write(fresh(path), M);
    }
}

// harness-side text formatting of a value (symmetric files, hand-made base files)
inline std::string fmt(double v, int style) { char b[64]; snprintf(b, sizeof b, style == 0 ? "%.17g" : style == 1 ? "%.20e" : "%.16e", v); return b; }
inline std::string fmt_val(double v, int style) { return fmt(v, style); }
inline std::string fmt_val(cplx v, int style) { return fmt(v.real(), style) + " " + fmt(v.imag(), style); }
inline std::string fmt_val(int v, int) { return std::to_string(v); }

} // namespace c19
