// C14 — the check applied to one parameter structure (shared by c14_params.cpp and the compile-probe targets).
#pragma once
#include <algorithm>
#include "c14_components.hpp"

namespace c14 {
using vf::Tape; using vf::Ctx;


// export + re-import; the `false` overload is used for a structure whose export is checked by a separate compile probe
template <class P>
void export_and_reimport(const P &got, const GenCtx &g, const std::string &prefix, const char *label, std::true_type) {
    ptree out;
    got.get(out, prefix);
    { ExpV<P> ev{got, out, prefix, {}}; Desc<P>::visit(ev); ev.finish(); }

    // re-import: the exported tree (plus the pointer bundles, which describe user memory and are not exported by design)
    ptree back;
    if (prefix.empty()) back = out; else { auto ch = out.get_child_optional(prefix.substr(0, prefix.size() - 1)); if (ch) back = *ch; }
    for (auto &kv : g.bundles) back.put(kv.first, kv.second);
    unknown_log().clear();
    P again(back);
    VF_REQUIRE(unknown_log().empty(), "the import of " << label << " does not understand the key '" << unknown_log()[0] << "' that its own export produced");
    { CmpV<P> cv{got, again, "", "import(export(params))"}; Desc<P>::visit(cv); }
}
template <class P>
void export_and_reimport(const P &, const GenCtx &, const std::string &, const char *, std::false_type) {}

// ------------------------------------------------------------------------------------------------------------------
// (a)+(b) one parameter structure: import, typed access, unknown keys, export, re-import
template <class P, bool WithExport = true>
void test_struct(Tape &t, Ctx &c, const char *label) {
    require_layout_described<P>(label);
    Arena arena; ptree in;
    GenCtx g(t, in, arena);
    int dens = static_cast<int>(t.u(0, 3)); // how many fields get a value: ~1/3, ~2/3, all, 1/6
    switch (dens) { case 0: g.set_num = 1; g.set_den = 3; break; case 1: g.set_num = 2; g.set_den = 3; break; case 2: g.set_num = 1; g.set_den = 1; break; default: g.set_num = 1; g.set_den = 6; }
    P model;
    g.nodes.push_back(Node{"", false});
    GenV<P> gv{model, g, "", false};
    Desc<P>::visit(gv);

    // extra keys at random struct-level nodes of the compile-time part of the tree
    std::vector<std::string> nodes;
    for (auto &nd : g.nodes) if (!nd.deferred) nodes.push_back(nd.path);
    std::set<std::string> known = local_names(g.keys), injected;
    int nextra = static_cast<int>(t.u(0, 2));
    int maxdepth = 0;
    std::ostringstream xs;
    for (int i = 0; i < nextra; ++i) {
        std::string node = nodes[t.pick(nodes.size())];
        std::string nm = extra_name(t, g, known, injected);
        inject_extra(t, in, node, nm);
        injected.insert(nm);
        maxdepth = std::max<int>(maxdepth, static_cast<int>(std::count(node.begin(), node.end(), '.')));
        xs << " +" << node << nm;
    }
    std::string prefix = t.u(0, 2) == 0 ? "" : t.b() ? "p." : "x.y.";
    c.desc << "params " << label << " set=" << g.nset << ":" << g.log.str() << " extra:" << xs.str() << " export-prefix='" << prefix << "'";
    c.nontrivial = g.nset >= 3 || nextra > 0;
    c.label(std::string("struct:") + label);
    c.label(g.nset == 0 ? "set:0" : g.nset < 3 ? "set:1-2" : g.nset < 8 ? "set:3-7" : "set:8+");
    if (nextra) c.label("extra-depth:" + std::to_string(maxdepth));
    if (!g.bundles.empty()) c.label("pointer-bundle");

    // import
    unknown_log().clear();
    P got(in);
    std::set<std::string> reported(unknown_log().begin(), unknown_log().end());
    { CmpV<P> cv{model, got, "", "import"}; Desc<P>::visit(cv); }
    for (auto &k : reported) VF_REQUIRE(injected.count(k), "key '" << k << "' was reported as unknown although " << (known.count(k) ? "it is a parameter of this structure" : "it was never given"));
    for (auto &k : injected) VF_REQUIRE(reported.count(k), "unknown key '" << k << "' was silently dropped (not passed to AMGCL_PARAM_UNKNOWN); reported=" << set_to_string(reported));

    export_and_reimport<P>(got, g, prefix, label, std::integral_constant<bool, WithExport>());
}


} // namespace c14
