// C15 (part B) — call histories on make_solver<cpr> and make_solver<schur_pressure_correction> (with long-lived inner make_solver objects).
// Model, clauses and the history decoder: props/c15_common.hpp; object kinds: props/c15_kinds.hpp.
#include "c15_kinds.hpp"

static std::vector<Prop> props() {
    return {
        Prop("hist_cpr", run_history<KCpr>, 1000, 10000, 100, 10, {1}, 2, 8),
        Prop("hist_schur", run_history<KSchur>, 500, 5000, 100, 10, {1}, 2, 8),
    };
}
static std::vector<Enum> enums() { return {}; }
VF_MAIN(props(), enums())
