// C16 (part 2) — Householder QR (amgcl::detail::QR) and static_matrix algebra.
//
// QR: for every shape m x n (1..12), both storage orders, general strides (leading dimension larger than the matrix),
// real / complex / 2x2-block values, matrix families incl. rank-deficient, zero columns, zero matrix:
//   A = Q(:,1:k) R(1:k,:), k = min(m,n);  Q^H Q = I_k;  R upper triangular (R(i,j) = 0 for j < i);  columns k+1..n of Q zero.
//   Bounds: Householder QR is backward stable, ||A - QR||_F <= c m k u ||A||_F and ||Q^H Q - I|| <= c m k u  (c = 16).
// solve(): full-rank tall systems -> least-squares solution, wide systems -> minimum-norm solution; reference: Eigen's
// completeOrthogonalDecomposition; forward bound  c max(m,n) u kappa (||x|| + kappa ||r|| / ||A||)  with kappa from Eigen's SVD.
// static_matrix: entry-wise definitions against an independent integer evaluation, and the ring identities, bitwise on integers.
#include <complex>
#include <amgcl/backend/builtin.hpp>
#include <amgcl/value_type/static_matrix.hpp>
#include <amgcl/value_type/complex.hpp>
#include <amgcl/detail/qr.hpp>
#include <Eigen/Dense>
#include "c16_common.hpp"

using namespace c16;
typedef amgcl::static_matrix<double, 2, 2> blk2;
namespace ad = amgcl::detail;

template <class T> struct QT;
template <> struct QT<double> { static const bool cx = false; static const char *name() { return "double"; } static double make(double re, double) { return re; } static cplx z(double v) { return cplx(v, 0); } };
template <> struct QT<cplx> { static const bool cx = true; static const char *name() { return "complex"; } static cplx make(double re, double im) { return cplx(re, im); } static cplx z(cplx v) { return v; } };

// tiny long-double complex matrix (hand-written products: an Eigen instantiation for complex<long double> costs ~30 s of compile time)
struct LMat {
    int r, c; std::vector<lcplx> a;
    LMat(int r_, int c_) : r(r_), c(c_), a(static_cast<size_t>(r_) * c_, lcplx(0, 0)) {}
    lcplx &operator()(int i, int j) { return a[static_cast<size_t>(i) * c + j]; }
    const lcplx &operator()(int i, int j) const { return a[static_cast<size_t>(i) * c + j]; }
};
// max |Q R - A| and max |Q^H Q - I|
static long double err_qr(const LMat &Q, const LMat &R, const LMat &A) {
    long double e = 0;
    for (int i = 0; i < A.r; ++i) for (int j = 0; j < A.c; ++j) { lcplx s(0, 0); for (int k = 0; k < Q.c; ++k) s += Q(i, k) * R(k, j); e = std::max(e, std::abs(s - A(i, j))); }
    return e;
}
static long double err_orth(const LMat &Q) {
    long double e = 0;
    for (int i = 0; i < Q.c; ++i) for (int j = 0; j < Q.c; ++j) { lcplx s(0, 0); for (int k = 0; k < Q.r; ++k) s += std::conj(Q(k, i)) * Q(k, j); e = std::max(e, std::abs(s - lcplx(i == j ? 1.0L : 0.0L, 0))); }
    return e;
}
typedef Eigen::Matrix<cplx, Eigen::Dynamic, Eigen::Dynamic> ZMat;

// matrix families; returns the m x n matrix as complex doubles (imaginary part zero for real types)
static ZMat gen_dense(Tape &t, int m, int n, bool cx, int fam, std::string &famname) {
    ZMat A = ZMat::Zero(m, n);
    auto rnd = [&]() { return cplx(t.uni(-1, 1), cx ? t.uni(-1, 1) : 0.0); };
    auto ival = [&](int a) { return cplx(static_cast<double>(t.u(-a, a)), cx ? static_cast<double>(t.u(-a, a)) : 0.0); };
    switch (fam) {
    case 0: famname = "uniform"; for (int i = 0; i < m; ++i) for (int j = 0; j < n; ++j) A(i, j) = rnd(); break;
    case 1: famname = "integers"; for (int i = 0; i < m; ++i) for (int j = 0; j < n; ++j) A(i, j) = ival(3); break;
    case 2: { famname = "rank-deficient"; int r = static_cast<int>(t.u(0, std::max(0, std::min(m, n) - 1)));
        ZMat Bm = ZMat::Zero(m, r), C = ZMat::Zero(r, n);
        for (int i = 0; i < m; ++i) for (int j = 0; j < r; ++j) Bm(i, j) = ival(2);
        for (int i = 0; i < r; ++i) for (int j = 0; j < n; ++j) C(i, j) = ival(2);
        A = Bm * C; break; }
    case 3: { famname = "zero-columns"; for (int j = 0; j < n; ++j) { bool zero = t.chance(1, 3); for (int i = 0; i < m; ++i) A(i, j) = zero ? cplx(0, 0) : rnd(); } break; }
    case 4: { famname = "scaled"; for (int i = 0; i < m; ++i) for (int j = 0; j < n; ++j) A(i, j) = cplx(t.slogu(1e-6, 1e6), cx ? t.slogu(1e-6, 1e6) : 0.0); break; }
    case 5: { famname = "sparse"; for (int i = 0; i < m; ++i) for (int j = 0; j < n; ++j) A(i, j) = t.chance(1, 3) ? rnd() : cplx(0, 0); break; }
    case 6: { famname = "upper-triangular"; for (int i = 0; i < m; ++i) for (int j = i; j < n; ++j) A(i, j) = rnd(); break; } // no reflector needed: tau = 0 paths
    default: { famname = "duplicate-columns"; for (int i = 0; i < m; ++i) for (int j = 0; j < n; ++j) A(i, j) = rnd(); for (int j = 1; j < n; ++j) if (t.b()) A.col(j) = A.col(static_cast<int>(t.pick(j))); break; }
    }
    return A;
}

// storage: element (i,j) at i*rs + j*cs inside a buffer with padding (garbage that must not be touched)
struct Layout { int rs, cs; size_t size; bool row_major; int pad; };
static Layout gen_layout(Tape &t, int m, int n, unsigned pad_den = 3) {
    Layout L; L.row_major = !t.b(); L.pad = t.chance(1, pad_den) ? static_cast<int>(t.u(1, 3)) : 0;
    if (L.row_major) { L.rs = n + L.pad; L.cs = 1; L.size = static_cast<size_t>(m) * L.rs; }
    else { L.cs = m + L.pad; L.rs = 1; L.size = static_cast<size_t>(n) * L.cs; }
    return L;
}

template <class T>
void prop_qr_factorize(Tape &t, Ctx &c) {
    const bool cx = QT<T>::cx;
    int m = static_cast<int>(t.u(1, 12)), n = static_cast<int>(t.u(1, 12));
    int fam = static_cast<int>(t.u(0, 7));
    Layout Lo = gen_layout(t, m, n);
    std::string fname; ZMat A0 = gen_dense(t, m, n, cx, fam, fname);
    const int k = std::min(m, n);
    c.desc << "QR<" << QT<T>::name() << ">::factorize " << m << "x" << n << " " << (Lo.row_major ? "row_major" : "col_major") << " pad=" << Lo.pad << " family=" << fname;
    if (m * n <= 16) { c.desc << " A=["; for (int i = 0; i < m; ++i) { for (int j = 0; j < n; ++j) c.desc << zs(A0(i, j)) << (j + 1 < n ? " " : ""); c.desc << (i + 1 < m ? "; " : ""); } c.desc << "]"; }
    c.label(std::string("val:") + QT<T>::name()); c.label("family:" + fname); c.label(Lo.row_major ? "row_major" : "col_major"); c.label(Lo.pad ? "strided" : "contiguous");
    c.label(m > n ? "tall" : m < n ? "wide" : "square");
    c.nontrivial = m != n && m >= 2 && n >= 2;
    const double sentinel = 12345.678;
    std::vector<T> buf(Lo.size, QT<T>::make(sentinel, cx ? -sentinel : 0));
    for (int i = 0; i < m; ++i) for (int j = 0; j < n; ++j) buf[i * Lo.rs + j * Lo.cs] = QT<T>::make(A0(i, j).real(), A0(i, j).imag());
    ad::QR<T> qr;
    // regression region (fixed 766a542): factorize() sized its Q buffer m*n but indexed it with the strides of A -> heap overflow for
    // any leading dimension larger than the matrix extent
    if (Lo.pad) c.label("strided-factorize");
    if (Lo.pad) qr.factorize(m, n, Lo.rs, Lo.cs, buf.data());
    else qr.factorize(m, n, buf.data(), Lo.row_major ? ad::row_major : ad::col_major);
    // padding untouched
    { std::vector<char> used(Lo.size, 0); for (int i = 0; i < m; ++i) for (int j = 0; j < n; ++j) used[i * Lo.rs + j * Lo.cs] = 1;
      for (size_t q = 0; q < Lo.size; ++q) if (!used[q]) VF_REQUIRE(buf[q] == QT<T>::make(sentinel, cx ? -sentinel : 0), "QR::factorize wrote outside the matrix (buffer position " << q << ")"); }
    LMat Q(m, k), R(k, n), A(m, n);
    long double normA = 0;
    for (int i = 0; i < m; ++i) for (int j = 0; j < n; ++j) { A(i, j) = L(A0(i, j)); normA += std::norm(A(i, j)); }
    normA = std::sqrt(normA);
    for (int i = 0; i < m; ++i) for (int j = 0; j < k; ++j) { cplx q = QT<T>::z(qr.Q(i, j)); VF_REQUIRE(std::isfinite(q.real()) && std::isfinite(q.imag()), "Q(" << i << "," << j << ") not finite"); Q(i, j) = L(q); }
    for (int i = 0; i < k; ++i) for (int j = 0; j < n; ++j) {
        cplx r = QT<T>::z(qr.R(i, j)); VF_REQUIRE(std::isfinite(r.real()) && std::isfinite(r.imag()), "R(" << i << "," << j << ") not finite"); R(i, j) = L(r);
        if (j < i) VF_REQUIRE(r == cplx(0, 0), "R(" << i << "," << j << ") = " << zs(r) << " below the diagonal");
    }
    for (int i = 0; i < m; ++i) for (int j = k; j < n; ++j) VF_REQUIRE(QT<T>::z(qr.Q(i, j)) == cplx(0, 0), "Q(" << i << "," << j << ") (column beyond min(m,n)) is not zero");
    long double tolf = 16.0L * m * k * U53 * (cx ? 4 : 1);
    long double errA = err_qr(Q, R, A);
    VF_REQUIRE(errA <= tolf * normA, "max|A - Q R| = " << static_cast<double>(errA) << " > " << static_cast<double>(tolf * normA) << " = 16 m k u ||A||_F");
    long double errQ = err_orth(Q);
    VF_REQUIRE(errQ <= tolf, "max|Q^H Q - I| = " << static_cast<double>(errQ) << " > " << static_cast<double>(tolf) << " = 16 m k u");
}

// least-squares / minimum-norm solve
template <class T>
void prop_qr_solve(Tape &t, Ctx &c) {
    const bool cx = QT<T>::cx;
    int m = static_cast<int>(t.u(1, 12)), n = static_cast<int>(t.u(1, 12));
    Layout Lo = gen_layout(t, m, n);
    int fam = static_cast<int>(t.u(0, 2)); // 0 uniform, 1 uniform + dominant diagonal (well conditioned), 2 scaled columns
    bool reuse = t.b() && m >= n;          // second right-hand side with computed=true (as in bicgstabl)
    ZMat A0(m, n);
    for (int i = 0; i < m; ++i) for (int j = 0; j < n; ++j) A0(i, j) = cplx(t.uni(-1, 1), cx ? t.uni(-1, 1) : 0.0);
    if (fam == 1) for (int i = 0; i < std::min(m, n); ++i) A0(i, i) += cplx(3, 0);
    if (fam == 2) for (int j = 0; j < n; ++j) { double s = std::ldexp(1.0, static_cast<int>(t.u(-8, 8))); A0.col(j) *= s; }
    ZMat b0(m, 1), b1(m, 1);
    for (int i = 0; i < m; ++i) { b0(i, 0) = cplx(t.uni(-1, 1), cx ? t.uni(-1, 1) : 0.0); b1(i, 0) = cplx(t.uni(-1, 1), cx ? t.uni(-1, 1) : 0.0); }
    c.desc << "QR<" << QT<T>::name() << ">::solve " << m << "x" << n << " " << (Lo.row_major ? "row_major" : "col_major") << " pad=" << Lo.pad << " fam=" << fam << " reuse=" << reuse;
    c.label(std::string("val:") + QT<T>::name()); c.label(Lo.row_major ? "row_major" : "col_major"); c.label(Lo.pad ? "strided" : "contiguous");
    c.label(m > n ? "tall-least-squares" : m < n ? "wide-minimum-norm" : "square"); if (reuse) c.label("computed=true reuse");
    Eigen::JacobiSVD<ZMat> svd(A0);
    double smax = svd.singularValues()(0), smin = svd.singularValues()(std::min(m, n) - 1);
    double kappa = smin > 0 ? smax / smin : 1e300;
    if (kappa * 1e-16 > 1e-4) { c.label("ill-conditioned-not-asserted"); c.nontrivial = false; return; } // "full-rank systems": numerically rank deficient draws are outside the clause
    c.label(kappa < 10 ? "kappa<10" : kappa < 1e3 ? "kappa<1e3" : "kappa>=1e3");
    c.nontrivial = m != n && std::min(m, n) >= 2;
    const double sentinel = 4321.5;
    std::vector<T> buf(Lo.size, QT<T>::make(sentinel, 0));
    for (int i = 0; i < m; ++i) for (int j = 0; j < n; ++j) buf[i * Lo.rs + j * Lo.cs] = QT<T>::make(A0(i, j).real(), A0(i, j).imag());
    std::vector<T> f(m), x(n, QT<T>::make(std::numeric_limits<double>::quiet_NaN(), 0));
    for (int i = 0; i < m; ++i) f[i] = QT<T>::make(b0(i, 0).real(), b0(i, 0).imag());
    ad::QR<T> qr;
    // regression region (fixed 6bb06be): the wide branch conjugated A[0 .. rows*cols) as if the storage were contiguous
    if (Lo.pad && m < n && cx) c.label("strided-wide-complex-solve");
    if (Lo.pad) qr.solve(m, n, Lo.rs, Lo.cs, buf.data(), f.data(), x.data());
    else qr.solve(m, n, buf.data(), f.data(), x.data(), Lo.row_major ? ad::row_major : ad::col_major);
    for (int i = 0; i < m; ++i) VF_REQUIRE(QT<T>::z(f[i]) == b0(i, 0), "QR::solve modified the right-hand side");
    auto check = [&](const ZMat &b, const std::vector<T> &xs, const char *what) {
        Eigen::CompleteOrthogonalDecomposition<ZMat> cod(A0);
        ZMat xr = cod.solve(b);
        ZMat r = b - A0 * xr;
        double nx = xr.norm(), nr = r.norm();
        double tol = 50.0 * std::max(m, n) * static_cast<double>(U53) * (cx ? 4 : 1) * kappa * (nx + kappa * nr / smax) + 1e-300;
        double err = 0;
        for (int j = 0; j < n; ++j) { cplx g = QT<T>::z(xs[j]); VF_REQUIRE(std::isfinite(g.real()) && std::isfinite(g.imag()), what << ": x[" << j << "] not finite"); err = std::max(err, std::abs(g - xr(j, 0))); }
        VF_REQUIRE(err <= tol, what << ": max|x - x_ref| = " << err << " > " << tol << " = 50 max(m,n) u kappa (||x|| + kappa ||r||/||A||), kappa=" << kappa << " (" << (m >= n ? "least-squares" : "minimum-norm") << " solution by Eigen COD)");
        // defining conditions, independent of Eigen's solver: tall: A^H (A x - b) = 0 ; wide: A x = b and x in range(A^H)
        ZMat xv(n, 1); for (int j = 0; j < n; ++j) xv(j, 0) = QT<T>::z(xs[j]);
        ZMat res = A0 * xv - b;
        double scale = smax * (xv.norm() + 1e-300) + kappa * b.norm();
        double ctol = 50.0 * std::max(m, n) * static_cast<double>(U53) * (cx ? 4 : 1) * kappa;
        if (m >= n) { ZMat g = A0.adjoint() * res; VF_REQUIRE(g.norm() <= ctol * smax * scale, what << ": normal equations residual ||A^H(Ax-b)|| = " << g.norm() << " > " << ctol * smax * scale); }
        else VF_REQUIRE(res.norm() <= ctol * scale, what << ": ||Ax-b|| = " << res.norm() << " > " << ctol * scale << " for a full-rank wide system");
    };
    check(b0, x, "QR::solve");
    if (reuse) {
        std::vector<T> f1(m), x1(n, QT<T>::make(std::numeric_limits<double>::quiet_NaN(), 0));
        for (int i = 0; i < m; ++i) f1[i] = QT<T>::make(b1(i, 0).real(), b1(i, 0).imag());
        if (Lo.pad) qr.solve(m, n, Lo.rs, Lo.cs, buf.data(), f1.data(), x1.data(), true);
        else qr.solve(m, n, buf.data(), f1.data(), x1.data(), Lo.row_major ? ad::row_major : ad::col_major, true);
        check(b1, x1, "QR::solve(computed=true)");
    }
}

// 2x2 block values: the block QR is the scalar QR of the expanded matrix
static void prop_qr_block(Tape &t, Ctx &c) {
    typedef amgcl::static_matrix<double, 2, 1> rhs2;
    int mb = static_cast<int>(t.u(1, 6)), nb = static_cast<int>(t.u(1, 6));
    bool row_major = !t.b();
    int op = static_cast<int>(t.u(0, 1)); // 0 factorize, 1 solve
    int fam = static_cast<int>(t.u(0, 3));
    const int m = 2 * mb, n = 2 * nb, k = std::min(m, n);
    std::string fname; ZMat A0 = gen_dense(t, m, n, false, op == 1 ? 0 : fam, fname);
    if (op == 1) for (int i = 0; i < k; ++i) A0(i, i) += cplx(3, 0);
    c.desc << "QR<static_matrix<double,2,2>> " << (op ? "solve " : "factorize ") << mb << "x" << nb << " blocks " << (row_major ? "row_major" : "col_major") << " family=" << fname;
    c.label(op ? "block-solve" : "block-factorize"); c.label(row_major ? "row_major" : "col_major"); c.label(mb > nb ? "tall" : mb < nb ? "wide" : "square");
    c.nontrivial = mb != nb;
    int rs = row_major ? nb : 1, cs = row_major ? 1 : mb;
    std::vector<blk2> buf(static_cast<size_t>(mb) * nb);
    for (int i = 0; i < mb; ++i) for (int j = 0; j < nb; ++j) for (int p = 0; p < 2; ++p) for (int q = 0; q < 2; ++q) buf[i * rs + j * cs](p, q) = A0(2 * i + p, 2 * j + q).real();
    ad::QR<blk2> qr;
    if (op == 0) {
        qr.factorize(mb, nb, buf.data(), row_major ? ad::row_major : ad::col_major);
        const int kb = std::min(mb, nb);
        LMat Q(m, k), R(k, n), A(m, n);
        long double normA = 0; for (int i = 0; i < m; ++i) for (int j = 0; j < n; ++j) { A(i, j) = L(A0(i, j)); normA += std::norm(A(i, j)); } normA = std::sqrt(normA);
        for (int i = 0; i < mb; ++i) for (int j = 0; j < kb; ++j) { blk2 q = qr.Q(i, j); for (int p = 0; p < 2; ++p) for (int s = 0; s < 2; ++s) { VF_REQUIRE(std::isfinite(q(p, s)), "block Q not finite"); Q(2 * i + p, 2 * j + s) = q(p, s); } }
        for (int i = 0; i < kb; ++i) for (int j = 0; j < nb; ++j) { blk2 r = qr.R(i, j); for (int p = 0; p < 2; ++p) for (int s = 0; s < 2; ++s) { VF_REQUIRE(std::isfinite(r(p, s)), "block R not finite"); R(2 * i + p, 2 * j + s) = r(p, s); if (j < i || (j == i && s < p)) VF_REQUIRE(r(p, s) == 0, "block R(" << i << "," << j << ")(" << p << "," << s << ") = " << r(p, s) << " below the scalar diagonal"); } }
        long double tolf = 16.0L * m * k * U53;
        long double errA = err_qr(Q, R, A);
        VF_REQUIRE(errA <= tolf * normA, "block QR: max|A - Q R| = " << static_cast<double>(errA) << " > " << static_cast<double>(tolf * normA));
        long double errQ = err_orth(Q);
        VF_REQUIRE(errQ <= tolf, "block QR: max|Q^T Q - I| = " << static_cast<double>(errQ) << " > " << static_cast<double>(tolf));
    } else {
        ZMat b(m, 1); for (int i = 0; i < m; ++i) b(i, 0) = cplx(t.uni(-1, 1), 0);
        std::vector<rhs2> f(mb), x(nb);
        for (int i = 0; i < mb; ++i) for (int p = 0; p < 2; ++p) f[i](p) = b(2 * i + p, 0).real();
        for (int j = 0; j < nb; ++j) for (int p = 0; p < 2; ++p) x[j](p) = std::numeric_limits<double>::quiet_NaN();
        qr.solve(mb, nb, buf.data(), f.data(), x.data(), row_major ? ad::row_major : ad::col_major);
        Eigen::JacobiSVD<ZMat> svd(A0);
        double smax = svd.singularValues()(0), smin = svd.singularValues()(k - 1), kappa = smax / smin;
        Eigen::CompleteOrthogonalDecomposition<ZMat> cod(A0);
        ZMat xr = cod.solve(b), r = b - A0 * xr;
        double tol = 50.0 * std::max(m, n) * static_cast<double>(U53) * kappa * (xr.norm() + kappa * r.norm() / smax);
        for (int j = 0; j < nb; ++j) for (int p = 0; p < 2; ++p) { double g = x[j](p); VF_REQUIRE(std::isfinite(g), "block QR solve: x not finite"); VF_REQUIRE(std::abs(g - xr(2 * j + p, 0).real()) <= tol, "block QR solve: |x - x_ref| = " << std::abs(g - xr(2 * j + p, 0).real()) << " > " << tol << " (kappa=" << kappa << ")"); }
    }
}

// ------------------------------------------------------------------ static_matrix algebra
template <class S> struct SI; // scalar generation from small integers
template <> struct SI<double> { static double gen(Tape &t) { return static_cast<double>(t.u(-5, 5)); } static cplx z(double v) { return cplx(v, 0); } };
template <> struct SI<int> { static int gen(Tape &t) { return static_cast<int>(t.u(-5, 5)); } static cplx z(int v) { return cplx(v, 0); } };
template <> struct SI<cplx> { static cplx gen(Tape &t) { double re = static_cast<double>(t.u(-5, 5)), im = static_cast<double>(t.u(-5, 5)); return cplx(re, im); } static cplx z(cplx v) { return v; } };

template <class S, int N, int M> amgcl::static_matrix<S, N, M> gen_sm(Tape &t) { amgcl::static_matrix<S, N, M> a; for (int k = 0; k < N * M; ++k) a(k) = SI<S>::gen(t); return a; }
template <class S, int N, int M> bool sm_eq(const amgcl::static_matrix<S, N, M> &a, const amgcl::static_matrix<S, N, M> &b) { for (int k = 0; k < N * M; ++k) if (!(a(k) == b(k))) return false; return true; }
template <class S, int N, int M> std::string sm_str(const amgcl::static_matrix<S, N, M> &a) { std::ostringstream os; os << "["; for (int i = 0; i < N; ++i) { for (int j = 0; j < M; ++j) os << zs(SI<S>::z(a(i, j))) << (j + 1 < M ? " " : ""); os << (i + 1 < N ? "; " : ""); } os << "]"; return os.str(); }

template <class S, int N, int K, int M>
void prop_static_matrix(Tape &t, Ctx &c) {
    namespace math = amgcl::math;
    typedef amgcl::static_matrix<S, N, K> MA; typedef amgcl::static_matrix<S, K, M> MB; typedef amgcl::static_matrix<S, M, N> MC;
    MA A = gen_sm<S, N, K>(t), A2 = gen_sm<S, N, K>(t), A3 = gen_sm<S, N, K>(t);
    MB Bm = gen_sm<S, K, M>(t), B2 = gen_sm<S, K, M>(t);
    MC C = gen_sm<S, M, N>(t);
    S s1 = SI<S>::gen(t), s2 = SI<S>::gen(t);
    c.desc << "static_matrix<" << (std::is_same<S, int>::value ? "int" : std::is_same<S, double>::value ? "double" : "complex") << "> " << N << "x" << K << "x" << M << " A=" << sm_str(A) << " B=" << sm_str(Bm) << " s=" << zs(SI<S>::z(s1));
    c.nontrivial = N * K * M > 1;
    // ---- definitions against an independent evaluation
    { auto P = A * Bm; for (int i = 0; i < N; ++i) for (int j = 0; j < M; ++j) { cplx s(0, 0); for (int k = 0; k < K; ++k) s += SI<S>::z(A(i, k)) * SI<S>::z(Bm(k, j)); VF_REQUIRE(SI<S>::z(P(i, j)) == s, "(A*B)(" << i << "," << j << ") = " << zs(SI<S>::z(P(i, j))) << " expected " << zs(s)); } }
    { auto Sm = A + A2, D = A - A2, Ng = -A, Sc = s1 * A; for (int k = 0; k < N * K; ++k) {
        VF_REQUIRE(SI<S>::z(Sm(k)) == SI<S>::z(A(k)) + SI<S>::z(A2(k)), "(A+B) entry " << k);
        VF_REQUIRE(SI<S>::z(D(k)) == SI<S>::z(A(k)) - SI<S>::z(A2(k)), "(A-B) entry " << k);
        VF_REQUIRE(SI<S>::z(Ng(k)) == -SI<S>::z(A(k)), "(-A) entry " << k);
        VF_REQUIRE(SI<S>::z(Sc(k)) == SI<S>::z(s1) * SI<S>::z(A(k)), "(s*A) entry " << k); } }
    { auto Ad = math::adjoint(A); for (int i = 0; i < N; ++i) for (int j = 0; j < K; ++j) VF_REQUIRE(SI<S>::z(Ad(j, i)) == std::conj(SI<S>::z(A(i, j))), "adjoint(A)(" << j << "," << i << ")"); }
    { auto Z = math::zero<MA>(); VF_REQUIRE(math::is_zero(Z), "is_zero(zero()) is false"); for (int k = 0; k < N * K; ++k) VF_REQUIRE(SI<S>::z(Z(k)) == cplx(0, 0), "zero() entry " << k);
      bool az = true; for (int k = 0; k < N * K; ++k) az = az && SI<S>::z(A(k)) == cplx(0, 0); VF_REQUIRE(math::is_zero(A) == az, "is_zero(A) wrong for A=" << sm_str(A));
      auto Cn = math::constant<MA>(3); for (int k = 0; k < N * K; ++k) VF_REQUIRE(SI<S>::z(Cn(k)).real() == 3, "constant() entry " << k); }
    // ---- compound assignments agree with the binary operators
    { MA X = A; X += A2; VF_REQUIRE(sm_eq(X, A + A2), "A += B differs from A + B"); X = A; X -= A2; VF_REQUIRE(sm_eq(X, A - A2), "A -= B differs from A - B"); X = A; X *= s1; VF_REQUIRE(sm_eq(X, s1 * A), "A *= s differs from s * A"); }
    // ---- ring identities (exact on integers)
    VF_REQUIRE(sm_eq((A + A2) + A3, A + (A2 + A3)), "(A+B)+C != A+(B+C)");
    VF_REQUIRE(sm_eq(A + A2, A2 + A), "A+B != B+A");
    VF_REQUIRE(math::is_zero(A - A), "A-A != 0");
    VF_REQUIRE(sm_eq(A + math::zero<MA>(), A), "A+0 != A");
    VF_REQUIRE(sm_eq((A * Bm) * C, A * (Bm * C)), "(A*B)*C != A*(B*C)");
    VF_REQUIRE(sm_eq(A * (Bm + B2), A * Bm + A * B2), "A*(B+C) != A*B + A*C");
    VF_REQUIRE(sm_eq((A + A2) * Bm, A * Bm + A2 * Bm), "(A+B)*C != A*C + B*C");
    VF_REQUIRE(sm_eq(s1 * (A + A2), s1 * A + s1 * A2), "s*(A+B) != s*A + s*B");
    VF_REQUIRE(sm_eq((s1 * A) * Bm, s1 * (A * Bm)), "(s*A)*B != s*(A*B)");
    VF_REQUIRE(sm_eq(s1 * (s2 * A), (s1 * s2) * A), "s*(t*A) != (s*t)*A");
    VF_REQUIRE(sm_eq(-A, static_cast<S>(-1) * A), "-A != (-1)*A");
    VF_REQUIRE(sm_eq(A * math::identity<amgcl::static_matrix<S, K, K>>(), A), "A*I != A");
    VF_REQUIRE(sm_eq(math::identity<amgcl::static_matrix<S, N, N>>() * A, A), "I*A != A");
    VF_REQUIRE(sm_eq(math::adjoint(math::adjoint(A)), A), "adjoint(adjoint(A)) != A");
    VF_REQUIRE(sm_eq(math::adjoint(A * Bm), math::adjoint(Bm) * math::adjoint(A)), "adjoint(A*B) != adjoint(B)*adjoint(A)");
    // ---- inner product  <X,Y> = X^T conj(Y) (columns), conjugate-linear in the second argument; Frobenius norm
    if constexpr (K > 1) { auto Pm = math::inner_product(A, A2);
      for (int i = 0; i < K; ++i) for (int j = 0; j < K; ++j) { cplx s(0, 0); for (int k = 0; k < N; ++k) s += SI<S>::z(A(k, i)) * std::conj(SI<S>::z(A2(k, j))); VF_REQUIRE(SI<S>::z(Pm(i, j)) == s, "inner_product(A,B)(" << i << "," << j << ") = " << zs(SI<S>::z(Pm(i, j))) << " expected " << zs(s)); } }
    { amgcl::static_matrix<S, N, 1> x = gen_sm<S, N, 1>(t), y = gen_sm<S, N, 1>(t);
      cplx s(0, 0); for (int k = 0; k < N; ++k) s += SI<S>::z(x(k)) * std::conj(SI<S>::z(y(k)));
      VF_REQUIRE(SI<S>::z(math::inner_product(x, y)) == s, "inner_product(x,y) = " << zs(SI<S>::z(math::inner_product(x, y))) << " expected sum x_i conj(y_i) = " << zs(s));
      auto Ax = A2 * gen_sm<S, K, 1>(t); (void)Ax; }
    if (!std::is_same<S, int>::value) {
        long double f2 = 0; for (int k = 0; k < N * K; ++k) f2 += std::norm(L(SI<S>::z(A(k))));
        long double nf = std::sqrt(f2), got = static_cast<long double>(math::norm(A));
        VF_REQUIRE(std::abs(got - nf) <= 4 * U53 * nf, "norm(A) = " << static_cast<double>(got) << " expected Frobenius norm " << static_cast<double>(nf));
    }
    // operator< orders by trace (square blocks are used as keys in sorting code)
    if (N == K && !std::is_same<S, cplx>::value) {
        cplx ta(0, 0), tb(0, 0); for (int i = 0; i < N; ++i) { ta += SI<S>::z(A(i, i)); tb += SI<S>::z(A2(i, i)); }
        VF_REQUIRE((A < A2) == (ta.real() < tb.real()), "operator< does not compare traces");
    }
}

static std::vector<Prop> props() {
    return {
        Prop("qr_factorize_double", prop_qr_factorize<double>, 4000, 40000, 100, 8, {1}, 2, 4),
        Prop("qr_factorize_complex", prop_qr_factorize<cplx>, 4000, 40000, 100, 12, {1}, 1, 2),
        Prop("qr_solve_double", prop_qr_solve<double>, 4000, 40000, 100, 8, {1}, 2, 4),
        Prop("qr_solve_complex", prop_qr_solve<cplx>, 3000, 30000, 100, 12, {1}, 1, 2),
        Prop("qr_block", prop_qr_block, 3000, 30000, 100, 8, {1}, 1, 2),
        Prop("sm_double_2", prop_static_matrix<double, 2, 2, 2>, 1500, 15000, 100, 2, {1}, 1, 1),
        Prop("sm_double_3", prop_static_matrix<double, 3, 3, 3>, 1500, 15000, 100, 2, {1}, 1, 1),
        Prop("sm_double_4", prop_static_matrix<double, 4, 4, 4>, 1000, 10000, 100, 3, {1}, 1, 1),
        Prop("sm_double_234", prop_static_matrix<double, 2, 3, 4>, 1000, 10000, 100, 2, {1}, 1, 1),
        Prop("sm_double_412", prop_static_matrix<double, 4, 1, 2>, 1000, 10000, 100, 2, {1}, 1, 1),
        Prop("sm_complex_2", prop_static_matrix<cplx, 2, 2, 2>, 1500, 15000, 100, 2, {1}, 1, 1),
        Prop("sm_complex_323", prop_static_matrix<cplx, 3, 2, 3>, 1000, 10000, 100, 3, {1}, 1, 1),
        Prop("sm_int_3", prop_static_matrix<int, 3, 3, 3>, 1000, 10000, 100, 2, {1}, 1, 1),
    };
}

// every shape 1..12 x 1..12 x matrix family x storage order x {contiguous, padded}, values from a fixed LCG stream
static std::vector<Enum> enums() {
    std::vector<Enum> v;
    for (int cxv = 0; cxv < 2; ++cxv) {
        Enum e;
        e.name = cxv ? "qr_all_shapes_complex" : "qr_all_shapes_double"; e.prop = cxv ? "qr_factorize_complex" : "qr_factorize_double";
        e.scope_quick = "every shape m x n with 1 <= m,n <= 12, x 8 matrix families (uniform, integers, rank-deficient, zero columns, scaled, sparse, upper triangular, duplicate columns) x "
                        "{row_major, col_major} x {contiguous, padded leading dimension}; entries from a fixed pseudo-random stream (1 draw per combination)";
        e.scope_thorough = "quick scope with 8 draws per combination";
        e.gen = [cxv](const std::string &tier, const Emit &emit) {
            uint64_t st = 0x9E3779B97F4A7C15ULL + cxv;
            auto next = [&]() { st = st * 6364136223846793005ULL + 1442695040888963407ULL; return static_cast<uint32_t>(st >> 32); };
            int draws = tier == "thorough" ? 8 : 1;
            for (uint32_t m = 1; m <= 12; ++m) for (uint32_t n = 1; n <= 12; ++n) for (uint32_t fam = 0; fam < 8; ++fam) for (uint32_t cm = 0; cm < 2; ++cm) for (uint32_t pad = 0; pad < 2; ++pad) for (int d = 0; d < draws; ++d) {
                std::vector<uint32_t> tape = {m - 1, n - 1, fam, cm, pad ? 2u : 0u};
                if (pad) tape.push_back(next() % 3);
                for (int q = 0; q < 2 * 12 * 12 * 2 + 40; ++q) tape.push_back(next());
                emit(tape);
            }
        };
        v.push_back(e);
    }
    return v;
}

VF_MAIN(props(), enums())
