// C17 (compositions of adapters with the block adapter).
//  * block_matrix<2x2>(make_matrix(row builder)) handed to a block-valued solver: entries / interleaved iterators / SpMV as in c17_adapters.cpp,
//    then setup and solve through the composed adapter, judged by the true residual of the SCALAR system;
//  * adapter::reorder<> on top of adapter::block_matrix (examples/solver.cpp, block_solve with reordering): fixed finding F-block-iterator-copy (regression replay/C17/block-iterator-copy.case).
#include <amgcl/backend/builtin.hpp>
#include <amgcl/value_type/static_matrix.hpp>
#include <amgcl/adapter/crs_tuple.hpp>
#include <amgcl/adapter/crs_builder.hpp>
#include <amgcl/adapter/block_matrix.hpp>
#include <amgcl/adapter/reorder.hpp>
#include <amgcl/make_solver.hpp>
#include <amgcl/amg.hpp>
#include <amgcl/coarsening/smoothed_aggregation.hpp>
#include <amgcl/relaxation/spai0.hpp>
#include <amgcl/solver/bicgstab.hpp>
#include "c17_common.hpp"
#include "c17_block2.hpp"
#include "c13_common.hpp"

using namespace vf;
using namespace c17;
namespace ab = amgcl::backend;
namespace ad = amgcl::adapter;

// ------------------------------------------------------------------------------------------------ compositions with the block adapter
// (a) block_matrix<2x2>(make_matrix(row builder)) handed to a block-valued solver: setup and solve through the composed adapter,
//     judged by the true residual of the SCALAR system.
// (b) adapter::reorder<> on top of adapter::block_matrix (examples/solver.cpp, block_solve with reordering).
typedef ab::builtin<blk2> BB2;
typedef amgcl::make_solver<amgcl::amg<BB2, amgcl::coarsening::smoothed_aggregation, amgcl::relaxation::spai0>, amgcl::solver::bicgstab<BB2>> BlockSolver;

static Source gen_cell_source(Tape &t, std::string &fam, bool &model) {
    c13::BlockCase bc = c13::gen_block_case(t, 2, t.chance(1, 4) ? 5 : 40);
    Source s; s.A = bc.A; fam = bc.family + "/kind" + std::to_string(bc.kind); model = bc.model();
    s.x = gen_vec(t, static_cast<size_t>(s.A.n), 2); s.y0.assign(s.A.n, 0.0);
    s.finish();
    s.sched = gen_schedule(t, s.A.n);
    return s;
}

static void prop_block_builder_solve(Tape &t, Ctx &c) {
    std::string fam; bool model;
    Source src = gen_cell_source(t, fam, model);
    const Csr<double> &A = src.A;
    std::string fk; std::vector<double> f = nonzero_rhs(t, A, fk);
    unsigned ce = t.b() ? 3000 : 6;
    const double tol = 1e-8; const size_t maxiter = 1000;
    c.desc << "block_matrix(make_matrix(builder)) solve " << fam << " " << describe(A) << " rhs=" << fk << " coarse_enough=" << ce << " A=" << dump_small(A, 8);
    c.nontrivial = A.n >= 4 && A.nnz() > A.n;
    c.label("cellfam:" + fam.substr(0, fam.find('/'))); c.label(model ? "model" : "non-model(truthfulness only)");
    RowBuilder rb; rb.A = &A;
    auto Mb = ad::make_matrix(rb);
    check_block2(Mb, src, "block_matrix<2x2>(make_matrix(row builder))");
    auto Ab = ad::block_matrix<blk2>(Mb);
    size_t n = static_cast<size_t>(A.n);
    try {
        BlockSolver::params p; p.solver.tol = tol; p.solver.maxiter = maxiter; p.precond.coarse_enough = ce;
        BlockSolver solve(Ab, p);
        std::vector<double> x(n, 0.0);
        auto F = ab::reinterpret_as_rhs<blk2>(f); auto X = ab::reinterpret_as_rhs<blk2>(x);
        size_t iters; double resid;
        std::tie(iters, resid) = solve(Ab, F, X);
        if (!std::isfinite(resid) && !model) { c.label("non-finite-residual-reported"); return; }
        for (double v : x) VF_REQUIRE(std::isfinite(v), "block(builder) solve: non-finite solution, reported residual " << resid);
        long double rho = true_relres(A, f, x), allow = drift_allowance(A, f, x, iters);
        VF_REQUIRE(rho <= static_cast<long double>(resid) + allow && rho >= static_cast<long double>(resid) - allow, "block_matrix(make_matrix(builder)) + amg<2x2> + bicgstab: true residual of the scalar system "
                   << static_cast<double>(rho) << " vs reported " << resid << " (iters " << iters << ", allowance " << static_cast<double>(allow) << ")");
        if (model) VF_REQUIRE(resid <= tol, "block_matrix(make_matrix(builder)) + amg<2x2> + bicgstab: reported " << resid << " after " << iters << " iterations");
        c.label(resid <= tol ? "solved:block(builder)" : "not-converged-but-truthful:block(builder)");
    } catch (const vf::Fail &) { throw; }
      catch (const std::runtime_error &e) { if (std::string(e.what()).find("in BiCGStab") != std::string::npos) c.label(model ? "breakdown(model):block(builder)" : "breakdown:block(builder)"); else throw; } // clean breakdown report, see props/c13_common.hpp
}

static void prop_reorder_block(Tape &t, Ctx &c) {
    std::string fam; bool model;
    Source src = gen_cell_source(t, fam, model);
    const Csr<double> &A = src.A;
    c.desc << "reorder(block_matrix(tuple)) " << fam << " " << describe(A) << " A=" << dump_small(A, 8);
    c.nontrivial = A.n >= 4 && A.nnz() > A.n;
    c.label("cellfam:" + fam.substr(0, fam.find('/')));
    // Former finding F-block-iterator-copy (fixed in /repo 5b1ca34): block_matrix_adapter::row_iterator kept a pointer into its own
    // buffer and had the implicit copy constructor; reordered_matrix::row_begin() copies it, so the copy read the dead temporary
    // (ASan: stack-buffer-underflow in block_matrix.hpp via reorder.hpp). The composition is checked without exclusion.
    size_t n = static_cast<size_t>(A.n), nb = n / 2;
    auto T = std::tie(n, A.ptr, A.col, A.val);
    auto Ab = ad::block_matrix<blk2>(T);
    ad::reorder<> perm(Ab);
    std::vector<ptrdiff_t> id(nb), pv(nb), ip(nb);
    for (size_t i = 0; i < nb; ++i) id[i] = static_cast<ptrdiff_t>(i);
    perm.forward(id, pv);
    std::vector<char> seen(nb, 0);
    for (size_t i = 0; i < nb; ++i) { VF_REQUIRE(pv[i] >= 0 && static_cast<size_t>(pv[i]) < nb && !seen[pv[i]], "reorder(block): perm is not a permutation"); seen[pv[i]] = 1; ip[pv[i]] = static_cast<ptrdiff_t>(i); }
    auto Pb = perm(Ab);
    ab::crs<blk2> K(Pb), K0(Ab);
    VF_REQUIRE(K.nrows == nb && K.nnz == K0.nnz, "reorder(block): shape/nnz");
    for (size_t i = 0; i < nb; ++i) {
        ptrdiff_t r = pv[i];
        VF_REQUIRE(K.ptr[i + 1] - K.ptr[i] == K0.ptr[r + 1] - K0.ptr[r], "reorder(block): length of block row " << i);
        for (ptrdiff_t j = K.ptr[i], j0 = K0.ptr[r]; j < K.ptr[i + 1]; ++j, ++j0) {
            VF_REQUIRE(K.col[j] == ip[K0.col[j0]], "reorder(block): block row " << i << " column " << K.col[j] << ", expected " << ip[K0.col[j0]]);
            for (int q = 0; q < 4; ++q) VF_REQUIRE(K.val[j](q) == K0.val[j0](q), "reorder(block): block (" << i << "," << K.col[j] << ") entry " << q << " = " << K.val[j](q) << ", expected " << K0.val[j0](q));
        }
    }
}

static std::vector<Prop> props() {
    return {
        Prop("block_builder_solve", prop_block_builder_solve, 200, 3000, 100, 60, {1}, 2, 8),
        Prop("reorder_block", prop_reorder_block, 100, 1500, 100, 60, {1}, 1, 4),
    };
}
static std::vector<Enum> enums() { return {}; }

VF_MAIN(props(), enums())
