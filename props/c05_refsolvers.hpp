// C05 reference solvers: textbook recurrences in a generic scalar type S (long double,
// std::complex<long double>; also double / std::complex<double> for the sensitivity twin).
// NO amgcl code is used or included here.  Sources of the recurrences:
//   PCG        Saad, Iterative Methods for Sparse Linear Systems (2nd ed.), Alg. 9.1
//   BiCGStab   van der Vorst 1992 / Saad Alg. 7.7, applied to the preconditioned operator
//   GMRES(m)   Saad Alg. 6.9 (Arnoldi, modified Gram-Schmidt) with the small least-squares
//              problem solved by Householder QR (Eigen), not by Givens rotations
//   FGMRES(m)  Saad Alg. 9.6
//   LGMRES(m,k) Baker, Jessup, Manteuffel, SIAM J. Matrix Anal. Appl. 26 (2005), dense formulation (see the function)
//   Richardson x <- x + omega M (b - A x)
// Inner product convention: dot(x, y) = x^H y.
#pragma once
#include <cmath>
#include <complex>
#include <cstddef>
#include <vector>
#include <Eigen/Dense>

namespace ref {

template <class S> struct real_of { typedef S type; };
template <class T> struct real_of<std::complex<T>> { typedef T type; };

template <class T> inline T cj(const T &x) { return x; }
template <class T> inline std::complex<T> cj(const std::complex<T> &x) { return std::conj(x); }
template <class T> inline T abs2(const T &x) { return x * x; }
template <class T> inline T abs2(const std::complex<T> &x) { return std::norm(x); }

template <class S> using Vec = std::vector<S>;

template <class S>
struct Mat {
    int n = 0;
    std::vector<S> a;
    Mat() {}
    explicit Mat(int n_) : n(n_), a(static_cast<size_t>(n_) * n_, S()) {}
    S &operator()(int i, int j) { return a[static_cast<size_t>(i) * n + j]; }
    const S &operator()(int i, int j) const { return a[static_cast<size_t>(i) * n + j]; }
};

template <class S>
Vec<S> mul(const Mat<S> &A, const Vec<S> &x) {
    Vec<S> y(A.n, S());
    for (int i = 0; i < A.n; ++i) { S s = S(); for (int j = 0; j < A.n; ++j) s += A(i, j) * x[j]; y[i] = s; }
    return y;
}
template <class S>
S dot(const Vec<S> &x, const Vec<S> &y) { S s = S(); for (size_t i = 0; i < x.size(); ++i) s += cj(x[i]) * y[i]; return s; }
template <class S>
typename real_of<S>::type nrm2(const Vec<S> &x) { typename real_of<S>::type s = 0; for (auto &v : x) s += abs2(v); return std::sqrt(s); }
template <class S>
void axpy(const S &a, const Vec<S> &x, Vec<S> &y) { for (size_t i = 0; i < x.size(); ++i) y[i] += a * x[i]; }
template <class S>
Vec<S> sub(const Vec<S> &a, const Vec<S> &b) { Vec<S> c(a.size()); for (size_t i = 0; i < a.size(); ++i) c[i] = a[i] - b[i]; return c; }

// A system A x = b with a fixed linear preconditioner M (nullptr = identity) applied on one side.
template <class S>
struct Sys {
    const Mat<S> *A = nullptr;
    const Mat<S> *M = nullptr;
    Vec<S> b;
    bool left = false;
    Vec<S> prec(const Vec<S> &v) const { return M ? mul(*M, v) : v; }
    // residual of the preconditioned system at x
    Vec<S> res(const Vec<S> &x) const { Vec<S> r = sub(b, mul(*A, x)); return left ? prec(r) : r; }
    // preconditioned operator
    Vec<S> B(const Vec<S> &v) const { return left ? prec(mul(*A, v)) : mul(*A, prec(v)); }
    // map an increment of the preconditioned unknown to an increment of x
    Vec<S> lift(const Vec<S> &d) const { return left ? d : prec(d); }
};

template <class S>
struct Trace {
    typedef typename real_of<S>::type R;
    std::vector<Vec<S>> x;   // x[k] = k-th iterate, x[0] = initial guess
    std::vector<R> rn;       // rn[k] = norm of the (preconditioned, recursive or true) residual belonging to x[k]
    std::vector<R> cond;     // BiCGStab only: cond[k] = smallest |(a,b)|/(|a||b|) among the divisors used to produce x[k]
                             // ((r^,r), (r^,v), (t,s)), and 0 when the intermediate residual s of step k is already (numerically)
                             // zero; values near 0 mean the recurrence (numerically) breaks down in step k
};

// ------------------------------------------------------------------ preconditioned CG
template <class S>
Trace<S> pcg(const Mat<S> &A, const Mat<S> *M, const Vec<S> &b, const Vec<S> &x0, int K) {
    Trace<S> t;
    Vec<S> x = x0, r = sub(b, mul(A, x));
    Vec<S> z = M ? mul(*M, r) : r, p = z;
    S rz = dot(r, z);
    t.x.push_back(x); t.rn.push_back(nrm2(r));
    for (int k = 0; k < K; ++k) {
        Vec<S> q = mul(A, p);
        S pq = dot(p, q);
        if (pq == S() || rz == S()) break;
        S alpha = rz / pq;
        axpy(alpha, p, x);
        axpy(-alpha, q, r);
        z = M ? mul(*M, r) : r;
        S rz_new = dot(r, z);
        S beta = rz_new / rz;
        rz = rz_new;
        for (size_t i = 0; i < p.size(); ++i) p[i] = z[i] + beta * p[i];
        t.x.push_back(x); t.rn.push_back(nrm2(r));
    }
    return t;
}

// ------------------------------------------------------------------ BiCGStab on the preconditioned operator
template <class S>
Trace<S> bicgstab(const Sys<S> &s, const Vec<S> &x0, int K) {
    typedef typename real_of<S>::type R;
    Trace<S> t;
    Vec<S> x = x0, r = s.res(x), rh = r, p = r;
    S rho = dot(rh, r);
    t.x.push_back(x); t.rn.push_back(nrm2(r)); t.cond.push_back(1);
    auto rel = [](const S &d, R a, R b) { R den = a * b; return den > 0 ? R(std::abs(d)) / den : R(0); };
    R nrh = nrm2(rh);
    for (int k = 0; k < K; ++k) {
        Vec<S> v = s.B(p);
        S rhv = dot(rh, v);
        if (rhv == S() || rho == S()) break;
        R cnd = std::min(rel(rho, nrh, nrm2(r)), rel(rhv, nrh, nrm2(v)));
        S alpha = rho / rhv;
        Vec<S> sv = r; axpy(-alpha, v, sv);
        Vec<S> tv = s.B(sv);
        S tt = dot(tv, tv);
        if (tt == S()) { axpy(alpha, s.lift(p), x); t.x.push_back(x); t.rn.push_back(nrm2(sv)); t.cond.push_back(cnd); break; }
        S ts = dot(tv, sv);
        cnd = std::min(cnd, rel(ts, nrm2(tv), nrm2(sv)));
        // s (numerically) zero: the BiCG half of the step already reached the solution, omega = (t,s)/(t,t) is 0/0
        if (!(nrm2(sv) > R(1e-9) * t.rn[0])) cnd = R(0);
        S omega = ts / tt;
        Vec<S> d(p.size());
        for (size_t i = 0; i < d.size(); ++i) d[i] = alpha * p[i] + omega * sv[i];
        axpy(S(1), s.lift(d), x);
        r = sv; axpy(-omega, tv, r);
        S rho_new = dot(rh, r);
        if (omega == S()) { t.x.push_back(x); t.rn.push_back(nrm2(r)); t.cond.push_back(R(0)); break; }
        S beta = (rho_new / rho) * (alpha / omega);
        rho = rho_new;
        for (size_t i = 0; i < p.size(); ++i) p[i] = r[i] + beta * (p[i] - omega * v[i]);
        t.x.push_back(x); t.rn.push_back(nrm2(r)); t.cond.push_back(cnd);
    }
    return t;
}

// widest scalar type of the same kind (the small dense solves are always done in long double, also for the double twin,
// whose purpose is to expose the rounding sensitivity of the vector recurrences)
template <class S> struct wide_of { typedef long double type; };
template <class T> struct wide_of<std::complex<T>> { typedef std::complex<long double> type; };

// small dense least squares  min || beta e1 - H(0..j+1, 0..j) y ||  by Householder QR
template <class S>
Vec<S> hess_ls(const std::vector<Vec<S>> &Hcols, typename real_of<S>::type beta, int j) {
    typedef typename wide_of<S>::type W;
    typedef Eigen::Matrix<W, Eigen::Dynamic, Eigen::Dynamic> EM;
    typedef Eigen::Matrix<W, Eigen::Dynamic, 1> EV;
    EM H = EM::Zero(j + 2, j + 1);
    for (int c = 0; c <= j; ++c) for (int r = 0; r <= c + 1; ++r) H(r, c) = W(Hcols[c][r]);
    EV g = EV::Zero(j + 2); g(0) = W(static_cast<long double>(beta));
    EV y = H.householderQr().solve(g);
    Vec<S> out(j + 1);
    for (int i = 0; i <= j; ++i) out[i] = S(y(i));
    return out;
}

// ------------------------------------------------------------------ restarted GMRES(m) (left or right preconditioned)
// flexible = true: FGMRES (the preconditioned directions Z_j = M v_j are stored; always "right")
template <class S>
Trace<S> gmres(const Sys<S> &s, const Vec<S> &x0, int m, int K, bool flexible = false) {
    typedef typename real_of<S>::type R;
    Trace<S> t;
    Vec<S> x = x0;
    t.x.push_back(x); t.rn.push_back(nrm2(s.res(x)));
    int k = 0;
    while (k < K) {
        Vec<S> r = s.res(x);
        R beta = nrm2(r);
        if (beta == 0) break;
        std::vector<Vec<S>> V, Z, H;
        V.push_back(r); for (auto &v : V[0]) v /= S(beta);
        bool broke = false;
        for (int j = 0; j < m && k < K; ++j) {
            Vec<S> w;
            if (flexible) { Z.push_back(s.prec(V[j])); w = mul(*s.A, Z[j]); }
            else w = s.B(V[j]);
            Vec<S> h(j + 2, S());
            for (int i = 0; i <= j; ++i) { h[i] = dot(V[i], w); axpy(-h[i], V[i], w); }
            R hn = nrm2(w);
            h[j + 1] = S(hn);
            H.push_back(h);
            Vec<S> y = hess_ls<S>(H, beta, j);
            Vec<S> d(x.size(), S());
            for (int i = 0; i <= j; ++i) axpy(y[i], flexible ? Z[i] : V[i], d);
            Vec<S> xk = x; axpy(S(1), flexible ? d : s.lift(d), xk);
            ++k;
            t.x.push_back(xk); t.rn.push_back(nrm2(s.res(xk)));
            if (hn == 0) { broke = true; break; }
            for (auto &v : w) v /= S(hn);
            V.push_back(w);
        }
        x = t.x.back();
        if (broke) break;
    }
    return t;
}

// ------------------------------------------------------------------ LGMRES(m, k)  ("loose" GMRES, Baker / Jessup / Manteuffel 2005)
// Every cycle i minimises the (preconditioned) residual over  x_i + span{ K_j(B, r_i), z_.. }  where the z are up to k
// normalised corrections ("error approximations") d_{i-1}, d_{i-2}, ... of the previous cycles, appended AFTER the Arnoldi
// vectors.  The dimension of the search space of a cycle is always m + k: while fewer than k corrections are stored the
// Krylov part is correspondingly longer (as in the paper).  Dense formulation: W = [v_0 .. v_{p-1}, z ...] (search
// directions), V orthonormal with  B W_j = V_{j+1} H_j  built by modified Gram-Schmidt (the first column of V is r_i/|r_i|),
// y = argmin | beta e_1 - H_j y |  by Householder QR,  d = W_j y,  x = x_i + lift(d).
// Conventions taken from amgcl's code because neither its documentation nor the defining equations fix them:
//   * the stored vector is d/|d| with d the correction of the PRECONDITIONED unknown (right preconditioning: x = x_i + M d);
//   * inside a cycle the stored corrections are used oldest first (newest_first = false).  The paper lists them newest
//     first; the order changes only the iterates whose k cuts into the augmented tail of a cycle with >= 2 stored
//     corrections, never the iterate at the end of a complete cycle.  newest_first = true gives the other order.
//   * a correction of norm exactly 0 is not stored.
template <class S>
Trace<S> lgmres(const Sys<S> &s, const Vec<S> &x0, int m, int kaug, int K, bool newest_first = false) {
    typedef typename real_of<S>::type R;
    Trace<S> t;
    Vec<S> x = x0;
    t.x.push_back(x); t.rn.push_back(nrm2(s.res(x)));
    std::vector<Vec<S>> outer; // stored corrections, oldest first
    const int mtot = m + kaug;
    int k = 0;
    while (k < K) {
        Vec<S> r = s.res(x);
        R beta = nrm2(r);
        if (beta == 0) break;
        std::vector<Vec<S>> V, W, H;
        V.push_back(r); for (auto &v : V[0]) v /= S(beta);
        const int nout = static_cast<int>(outer.size()), narn = mtot - nout;
        bool broke = false;
        Vec<S> d;
        for (int j = 0; j < mtot && k < K; ++j) {
            Vec<S> z = j < narn ? V[j] : outer[newest_first ? nout - 1 - (j - narn) : j - narn];
            W.push_back(z);
            Vec<S> w = s.B(z);
            Vec<S> h(j + 2, S());
            for (int i = 0; i <= j; ++i) { h[i] = dot(V[i], w); axpy(-h[i], V[i], w); }
            R hn = nrm2(w);
            h[j + 1] = S(hn);
            H.push_back(h);
            Vec<S> y = hess_ls<S>(H, beta, j);
            d.assign(x.size(), S());
            for (int i = 0; i <= j; ++i) axpy(y[i], W[i], d);
            Vec<S> xk = x; axpy(S(1), s.lift(d), xk);
            ++k;
            t.x.push_back(xk); t.rn.push_back(nrm2(s.res(xk)));
            if (hn == 0) { broke = true; break; }
            for (auto &v : w) v /= S(hn);
            V.push_back(w);
        }
        x = t.x.back();
        if (broke) break;
        R nd = nrm2(d);
        if (kaug > 0 && nd > 0) {
            for (auto &v : d) v /= S(nd);
            outer.push_back(d);
            if (static_cast<int>(outer.size()) > kaug) outer.erase(outer.begin());
        }
    }
    return t;
}

// ------------------------------------------------------------------ Richardson
template <class S>
Trace<S> richardson(const Mat<S> &A, const Mat<S> *M, const Vec<S> &b, const Vec<S> &x0, typename real_of<S>::type omega, int K) {
    Trace<S> t;
    Vec<S> x = x0;
    t.x.push_back(x); t.rn.push_back(nrm2(sub(b, mul(A, x))));
    for (int k = 0; k < K; ++k) {
        Vec<S> r = sub(b, mul(A, x));
        Vec<S> z = M ? mul(*M, r) : r;
        axpy(S(omega), z, x);
        t.x.push_back(x); t.rn.push_back(nrm2(sub(b, mul(A, x))));
    }
    return t;
}

// ------------------------------------------------------------------ optimality references (dense least squares)
// Orthonormal basis of K_k(B, g) by Arnoldi with two Gram-Schmidt passes; stops early (fewer columns)
// when the space becomes numerically invariant.
template <class S, class Op>
std::vector<Vec<S>> krylov_basis(const Op &B, const Vec<S> &g, int k) {
    typedef typename real_of<S>::type R;
    std::vector<Vec<S>> V;
    Vec<S> w = g;
    R n0 = nrm2(w);
    if (n0 == 0) return V;
    for (auto &v : w) v /= S(n0);
    V.push_back(w);
    while (static_cast<int>(V.size()) < k) {
        w = B(V.back());
        R before = nrm2(w);
        for (int pass = 0; pass < 2; ++pass)
            for (auto &q : V) { S h = dot(q, w); axpy(-h, q, w); }
        R hn = nrm2(w);
        if (!(hn > before * 1e-14L)) break;
        for (auto &v : w) v /= S(hn);
        V.push_back(w);
    }
    return V;
}

// min over d in K_k(B, r0) of || r0 - B d ||_2   (r0 = preconditioned residual at x0)
template <class S>
typename real_of<S>::type gmres_lsmin(const Sys<S> &s, const Vec<S> &x0, int k) {
    typedef Eigen::Matrix<S, Eigen::Dynamic, Eigen::Dynamic> EM;
    typedef Eigen::Matrix<S, Eigen::Dynamic, 1> EV;
    Vec<S> r0 = s.res(x0);
    auto V = krylov_basis<S>([&](const Vec<S> &v) { return s.B(v); }, r0, k);
    int n = static_cast<int>(r0.size()), q = static_cast<int>(V.size());
    if (q == 0) return 0;
    EM W(n, q); EV g(n);
    for (int j = 0; j < q; ++j) { Vec<S> w = s.B(V[j]); for (int i = 0; i < n; ++i) W(i, j) = w[i]; }
    for (int i = 0; i < n; ++i) g(i) = r0[i];
    EV y = W.householderQr().solve(g);
    EV e = g - W * y;
    typename real_of<S>::type sum = 0;
    for (int i = 0; i < n; ++i) sum += abs2(S(e(i)));
    return std::sqrt(sum);
}

template <class S>
typename real_of<S>::type anorm(const Mat<S> &A, const Vec<S> &e) {
    S v = dot(e, mul(A, e));
    typename real_of<S>::type r = std::real(v);
    return r > 0 ? std::sqrt(r) : 0;
}

// min over d in K_k(MA, M r0) of || (x* - x0) - d ||_A
template <class S>
typename real_of<S>::type cg_min_aerr(const Mat<S> &A, const Mat<S> *M, const Vec<S> &b, const Vec<S> &x0, const Vec<S> &xstar, int k) {
    typedef Eigen::Matrix<S, Eigen::Dynamic, Eigen::Dynamic> EM;
    typedef Eigen::Matrix<S, Eigen::Dynamic, 1> EV;
    Vec<S> r0 = sub(b, mul(A, x0));
    Vec<S> g = M ? mul(*M, r0) : r0;
    auto V = krylov_basis<S>([&](const Vec<S> &v) { Vec<S> w = mul(A, v); return M ? mul(*M, w) : w; }, g, k);
    int q = static_cast<int>(V.size());
    Vec<S> e0 = sub(xstar, x0);
    if (q == 0) return anorm(A, e0);
    EM G(q, q); EV rhs(q);
    for (int j = 0; j < q; ++j) {
        Vec<S> av = mul(A, V[j]);
        for (int i = 0; i < q; ++i) G(i, j) = dot(V[i], av);
        rhs(j) = dot(V[j], r0);          // V^H A e0 = V^H r0
    }
    EV y = G.householderQr().solve(rhs);
    Vec<S> e = e0;
    for (int j = 0; j < q; ++j) axpy(-S(y(j)), V[j], e);
    return anorm(A, e);
}

// Gaussian elimination with partial pivoting: inverse of a dense matrix (returns false if singular)
template <class S>
bool inverse(const Mat<S> &A, Mat<S> &Ainv) {
    int n = A.n;
    Mat<S> W = A; Ainv = Mat<S>(n);
    for (int i = 0; i < n; ++i) Ainv(i, i) = S(1);
    for (int k = 0; k < n; ++k) {
        int p = k; auto best = std::abs(W(k, k));
        for (int i = k + 1; i < n; ++i) if (std::abs(W(i, k)) > best) { best = std::abs(W(i, k)); p = i; }
        if (best == 0) return false;
        if (p != k) for (int j = 0; j < n; ++j) { std::swap(W(k, j), W(p, j)); std::swap(Ainv(k, j), Ainv(p, j)); }
        S piv = W(k, k);
        for (int j = 0; j < n; ++j) { W(k, j) /= piv; Ainv(k, j) /= piv; }
        for (int i = 0; i < n; ++i) if (i != k) {
            S f = W(i, k);
            if (f == S()) continue;
            for (int j = 0; j < n; ++j) { W(i, j) -= f * W(k, j); Ainv(i, j) -= f * Ainv(k, j); }
        }
    }
    return true;
}

} // namespace ref
