// C10 (extension b) — block values static_matrix<double,B,B> (B = C10_B) through the runtime coarsening / relaxation /
// solver wrappers, right-hand sides static_matrix<double,B,1>.
//
// Three ways of handing the same block system over: (0) a tuple of block-valued CRS arrays, (1) adapter::block_matrix<>
// over the scalar CRS arrays, (2) make_block_solver<> over the scalar arrays with scalar right-hand sides (reinterpreted
// in place).  Same poisoned-allocator differential / sanitizer twin as c10_determinism.cpp (see c10_common.hpp).
// ruge_stuben and spai1 are not available for block values and must be rejected with the same message every time; with
// a near-null-space the coarsening goes through coarsening::as_scalar.
#ifndef C10_B
#  define C10_B 2
#endif
#include <amgcl/value_type/static_matrix.hpp>
#include <amgcl/adapter/block_matrix.hpp>
#include <amgcl/make_block_solver.hpp>
#include "c10_common.hpp"

using namespace c10;
namespace ab = amgcl::backend;
static const int BS = C10_B;
typedef amgcl::static_matrix<double, C10_B, C10_B> blk;
typedef amgcl::static_matrix<double, C10_B, 1> bvec;
typedef ab::builtin<blk> B;
typedef amgcl::amg<B, amgcl::runtime::coarsening::wrapper, amgcl::runtime::relaxation::wrapper> AMG;
typedef amgcl::relaxation::as_preconditioner<B, amgcl::runtime::relaxation::wrapper> RLX;
typedef amgcl::runtime::solver::wrapper<B> ISolver;

struct Case {
    Csr<blk> Ab;     // block-valued arrays
    Csr<double> As;  // scalar arrays of the same system (structural zeros of a block are not stored), rows sorted
    int mode = 0;
    ptree prm;
    PrecondCfg pc; SolverCfg sc;
    std::vector<bvec> f, v1;
    std::vector<double> fs; // scalar copy of f
    std::vector<uint32_t> prehist;
};

static bvec bzero() { return amgcl::math::zero<bvec>(); }

template <class Precond>
static void execute(const Case &cs, Digest &D, bool pre, size_t &levels) {
    if (pre) prehistory(cs.prehist);
    std::vector<double> ns;
    // the user's arrays (exact-size copies, so that an overrun is visible to ASan and a write is visible afterwards)
    Csr<blk> Ab = cs.Ab; Csr<double> As = cs.As;
    try {
        ptree prm = cs.prm;
        bind_nullspace(cs.pc, prm, ns);
        size_t nb = static_cast<size_t>(cs.Ab.n), nsc = static_cast<size_t>(cs.As.n);
        if (cs.mode == 2) {
            if constexpr (std::is_same<Precond, AMG>::value) {
                amgcl::make_block_solver<AMG, ISolver> S(std::tie(nsc, As.ptr, As.col, As.val), prm);
                observe_print(D, S);
                levels = printed_levels(D);
                observe_solves(D, S, cs.fs, 0.0, !cs.sc.stateful);
            }
        } else {
            typedef amgcl::make_solver<Precond, ISolver> Solver;
            std::unique_ptr<Solver> S;
            if (cs.mode == 0) S.reset(new Solver(std::tie(nb, Ab.ptr, Ab.col, Ab.val), prm));
            else { auto T = std::tie(nsc, As.ptr, As.col, As.val); S.reset(new Solver(amgcl::adapter::block_matrix<blk>(T), prm)); }
            if constexpr (std::is_same<Precond, AMG>::value) { D.section("hierarchy"); dump_hier(D, S->precond()); levels = n_levels(S->precond()); }
            observe_print(D, *S);
            observe_apply(D, S->precond(), cs.f, cs.v1, bzero());
            observe_solves(D, *S, cs.f, bzero(), !cs.sc.stateful);
        }
    } catch (const vf::Fail &) { throw;
    } catch (const amgcl::error::empty_level &) { D.exc("empty_level");
    } catch (const std::exception &e) { D.exc(e.what()); }
    VF_REQUIRE(ns == (cs.pc.ns_cols ? cs.pc.ns : std::vector<double>()), "the user's near-null-space array was modified");
    VF_REQUIRE(Ab.ptr == cs.Ab.ptr && Ab.col == cs.Ab.col && std::memcmp(Ab.val.data(), cs.Ab.val.data(), Ab.val.size() * sizeof(blk)) == 0
               && As.ptr == cs.As.ptr && As.col == cs.As.col && std::memcmp(As.val.data(), cs.As.val.data(), As.val.size() * sizeof(double)) == 0, "the user's matrix arrays were modified");
}

static Case decode(Tape &t, Ctx &c, bool &degenerate) {
    Case cs;
    int cls; std::string dclass;
    Graph g = gen_class_graph(t, 64 / BS, cls, dclass);
    int vcls = static_cast<int>(t.u(0, 2));
    int fill8 = static_cast<int>(t.u(2, 8)); // an off-diagonal entry of a coupled block pair is present with probability fill8/8
    // scalar rows of the block system: strictly row diagonally dominant (every diagonal block is then non-singular)
    bool dense_diag = t.b();
    std::vector<std::map<ptrdiff_t, double>> rows = gen_block_sdd_rows(t, g, BS, vcls, fill8, dense_diag);
    std::vector<std::map<ptrdiff_t, char>> bpat(g.n); // block pattern (a coupled block is stored even if all of its entries are masked out)
    for (int i = 0; i < g.n; ++i) bpat[i][i] = 1;
    for (auto &e : g.edges) { bpat[e.first][e.second] = 1; bpat[e.second][e.first] = 1; }
    cs.As = from_triplets<double>(g.n * BS, g.n * BS, rows);
    cs.Ab.n = cs.Ab.m = g.n; cs.Ab.ptr.assign(1, 0);
    bool incomplete = false;
    for (int i = 0; i < g.n; ++i) {
        for (auto &bc : bpat[i]) {
            blk v = amgcl::math::zero<blk>();
            for (int a = 0; a < BS; ++a) for (int b2 = 0; b2 < BS; ++b2) { auto it = rows[i * BS + a].find(bc.first * BS + b2); if (it != rows[i * BS + a].end()) v(a, b2) = it->second; else incomplete = true; }
            cs.Ab.col.push_back(bc.first); cs.Ab.val.push_back(v);
        }
        cs.Ab.ptr.push_back(static_cast<ptrdiff_t>(cs.Ab.col.size()));
    }
    cs.pc = gen_precond(t, cs.prm, "precond.", PrecondOpts(g.n * BS).mult(BS).no_rs().no_spai1());
    cs.sc = gen_solver(t, cs.prm, "solver.", g.n);
    cs.mode = static_cast<int>(t.u(0, cs.pc.single_level ? 1 : 2));
    cs.f.resize(g.n); cs.v1.resize(g.n);
    { std::vector<double> a = gen_vec(t, static_cast<size_t>(g.n) * BS, static_cast<int>(t.u(0, 3))), b2 = gen_vec(t, static_cast<size_t>(g.n) * BS, 2);
      cs.fs = a;
      for (int i = 0; i < g.n; ++i) for (int k = 0; k < BS; ++k) { cs.f[i](k) = a[i * BS + k]; cs.v1[i](k) = b2[i * BS + k]; } }
    cs.prehist = gen_prehist(t);
    degenerate = cls <= 3 || vcls == 2 || cs.pc.degenerate();
    static const char *MODE[] = {"block-tuple", "adapter::block_matrix", "make_block_solver"};
    c.label("class:" + (dclass == "diagonal" ? std::string("block-diagonal") : dclass)); c.label(std::string("vals:") + vcls_name(vcls)); c.label(std::string("input:") + MODE[cs.mode]);
    c.label(incomplete ? "blocks:incomplete" : "blocks:full");
    c.label(cs.pc.single_level ? "single-level" : std::string("c:") + COARSE[cs.pc.ci]);
    c.label(std::string("r:") + RELAX[cs.pc.ri]); c.label(std::string("s:") + SOLVER[cs.sc.si]);
    if (cs.pc.ns_cols) c.label(cs.pc.ns_cols % BS == 0 ? "nullspace(as_scalar)" : "nullspace(as_scalar,cols-not-multiple-of-block)");
    if (!cs.pc.single_level && cs.pc.ml == 1) c.label("max_levels=1");
    if (!cs.pc.single_level && cs.pc.ce <= 2) c.label("tiny-coarse_enough");
    c.desc << "block" << BS << "x" << BS << " " << MODE[cs.mode] << " " << dclass << "/" << g.family << " nb=" << g.n << " block-nnz=" << cs.Ab.nnz() << " scalar-nnz=" << cs.As.nnz() << " vcls=" << vcls << " fill=" << fill8 << "/8 "
           << cs.pc.str() << " " << cs.sc.str() << " prehist=" << cs.prehist.size() << " As=" << dump_small(cs.As, 6);
    return cs;
}

static void prop_determinism_block(Tape &t, Ctx &c) {
    bool degenerate;
    Case cs = decode(t, c, degenerate);
    uint64_t rseed = static_cast<uint64_t>(t.u(1, 1 << 30));
    size_t levels = 1;
    differential(c, rseed, [&](Digest &D, bool pre) { if (cs.pc.single_level) execute<RLX>(cs, D, pre, levels); else execute<AMG>(cs, D, pre, levels); }, true);
    c.label("levels=" + std::to_string(std::min<size_t>(levels, 4)));
    c.nontrivial = degenerate || levels >= 2;
}

static std::vector<Prop> props() {
    return {Prop("determinism_block", prop_determinism_block, 1200, 12000, 100, 45, {1}, 4, 12)};
}
static std::vector<Enum> enums() { return {}; }
VF_MAIN(props(), enums())
