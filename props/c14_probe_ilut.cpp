// C14 (e) compile probe: the export of the ilut parameters (and of every composite that contains them) must instantiate.
// On the base tree ilut::params::get(ptree &p, ...) exports the field `p` with AMGCL_PARAMS_EXPORT_VALUE(p, path, p): the
// function parameter shadows the field and the statement does not compile.
#define C14_NO_RUNTIME_PRECOND
#define C14_NO_COMPOSITES
#include "c14_check.hpp"
#include "c14_equiv.hpp"
using namespace vf;
using namespace c14;
namespace c14 {
typedef amgcl::amg<B, co::smoothed_aggregation, re::ilut> AMG;
typedef amgcl::make_solver<AMG, so::cg<B>> MS;
C14_AMG_DESC(AMG) C14_MAKE_SOLVER_DESC(MS)
}
static void prop_params(Tape &t, Ctx &c) {
    switch (t.u(0, 2)) {
    case 0: test_struct<re::ilut<B>::params>(t, c, "ilut"); break;
    case 1: test_struct<AMG::params>(t, c, "amg<sa,ilut>"); break;
    default: test_struct<MS::params>(t, c, "make_solver<amg<sa,ilut>,cg>"); break;
    }
}
static void prop_object(Tape &t, Ctx &c) {
    object_export_case<MS>(t, c, "make_solver<amg<sa,ilut>,cg>::get_params", NoFix(), [](const MS &s, ptree &out) { s.get_params(out); });
}
static std::vector<Prop> props() { return {Prop("probe_ilut_params", prop_params, 600, 6000, 100, 8, {1}, 1, 2), Prop("probe_ilut_object", prop_object, 150, 1500, 100, 4, {1}, 1, 2)}; }
static std::vector<Enum> enums() { return {}; }
VF_MAIN(props(), enums())
