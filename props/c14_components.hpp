// C14 — table of every parameter structure of the serial (non-GPU, non-MPI) library.
//
// For every params struct P there is a specialisation Desc<P> that lists its fields:
//   v.value (key, &P::field, KIND)   value parameter: key, C++ type (from the member pointer), generator class
//   v.child (key, &P::field)         nested params struct (has its own Desc)
//   v.tree  (key, &P::field, RT_x)   nested boost::property_tree (run-time wrapper of kind RT_x picks the component by "type"/"class")
//   v.accepted(key)                  key that check_params tolerates although the struct has no such field
//   v.*_bundle()                     pointer bundles describing user memory (nullspace.{cols,rows,B}, pmask*, weights*)
// Visitors: GenV (tape -> input ptree + model struct), CmpV (typed comparison), ExpV (exported tree against the struct,
// every exported key must be in this table).
//
// The including TU gets AMGCL_PARAM_UNKNOWN redirected to c14::unknown_log() (this header must come before any amgcl header).
#pragma once
#include <algorithm>
#include <cctype>
#include <cinttypes>
#include <cstdio>
#include <cstdlib>
#include <cstring>
#include <memory>
#include <set>
#include <sstream>
#include <string>
#include <vector>

namespace c14 {
inline std::vector<std::string> &unknown_log() { static std::vector<std::string> v; return v; }
}
#ifndef C14_KEEP_DEFAULT_UNKNOWN_HOOK // (C20 links lib/amgcl.cpp, which is compiled with the library's default hook: keep one definition)
#  ifdef AMGCL_PARAM_UNKNOWN
#    error "c14_components.hpp must be included before any amgcl header"
#  endif
#  define AMGCL_PARAM_UNKNOWN(name) ::c14::unknown_log().push_back(name)
#endif

#include <boost/property_tree/ptree.hpp>
#include <amgcl/backend/builtin.hpp>
#include <amgcl/backend/block_crs.hpp>
#include <amgcl/adapter/crs_tuple.hpp>
#include <amgcl/amg.hpp>
#include <amgcl/make_solver.hpp>
#include <amgcl/coarsening/runtime.hpp>
#include <amgcl/relaxation/runtime.hpp>
#include <amgcl/solver/runtime.hpp>
#include <amgcl/relaxation/as_preconditioner.hpp>
#include <amgcl/preconditioner/dummy.hpp>
#ifndef C14_NO_RUNTIME_PRECOND
#  include <amgcl/preconditioner/runtime.hpp>
#endif
#ifndef C14_NO_COMPOSITES
#  include <amgcl/preconditioner/cpr.hpp>
#  include <amgcl/preconditioner/cpr_drs.hpp>
#  include <amgcl/preconditioner/schur_pressure_correction.hpp>
#endif
#include "../common/harness.hpp"

namespace c14 {

using boost::property_tree::ptree;
typedef amgcl::backend::builtin<double> B;
namespace co = amgcl::coarsening;
namespace re = amgcl::relaxation;
namespace so = amgcl::solver;
namespace rt = amgcl::runtime;
typedef amgcl::preconditioner::side::type side_t;

// a back-end that is not the builtin one: selects the generic (Jacobi-iterated) ilu_solve parameter structure
struct other_backend {
    typedef double value_type; typedef ptrdiff_t col_type; typedef ptrdiff_t ptr_type;
    typedef amgcl::detail::empty_params params;
    typedef amgcl::backend::crs<double> matrix;
    typedef amgcl::backend::numa_vector<double> vector;
    typedef amgcl::backend::numa_vector<double> matrix_diagonal;
};

// ---------------------------------------------------------------------------------------------- value generators
enum Kind {
    TOL,        // relative tolerance, (0,1)
    ABSTOL,     // absolute tolerance, >0
    MAXITER,    // iteration limit >= 1
    DIM,        // small positive dimension: M, K, L, s, degree, k, block_size, power_iters, iters
    CYCLES,     // npre/npost/ncycle/pre_cycles
    COARSE,     // coarse_enough
    LEVELS,     // max_levels >= 1
    ROWS,       // active_rows
    DAMP,       // damping factors, (0,2)
    FRAC,       // eps_strong, eps_trunc, eps_dd, eps_ps, lower, delta: (0,1)
    OVER,       // over_interp, relax, higher, omega: (0.5, 2)
    REAL,       // p (ilut fill factor), tau
    FLAG,       // bool
    VERBOSE,    // bool that makes the solver print every iteration (not set in solver runs)
    BLOCK,      // block_size of pointwise aggregates: must divide the number of rows when a hierarchy is built
    SIDE,       // left/right
    SCHUR_TYPE, // 1 or 2
    ADJUST_P,   // 0,1,2
    VERB,       // int verbosity
    PTR         // address of user memory
};

struct Arena { // user memory that pointer parameters refer to; exact-size heap blocks
    std::vector<std::unique_ptr<double[]>> d;
    std::vector<std::unique_ptr<char[]>> c;
    double *doubles(size_t n) { d.emplace_back(new double[n ? n : 1]); for (size_t i = 0; i < n; ++i) d.back()[i] = 0; return d.back().get(); }
    char *chars(size_t n) { c.emplace_back(new char[n ? n : 1]); for (size_t i = 0; i < n; ++i) c.back()[i] = 0; return c.back().get(); }
};

struct Node { std::string path; bool deferred; }; // struct-level position ("" or "a.b."); deferred: inside a run-time subtree (checked when the component is constructed)

struct GenCtx {
    vf::Tape &t;
    ptree &in;
    Arena &arena;
    bool sane = false;            // narrow ranges so that the configured solver is numerically reasonable (equivalence runs)
    int set_num = 1, set_den = 3; // probability that a field is set
    int nset = 0;                 // fields given a non-default value
    int depth = 0;                // nesting depth of run-time preconditioner trees
    size_t rows = 0;              // sane mode: number of rows of the system the parameters will be used with
    bool no_pointers = false;     // do not generate pointer bundles (parameter sets that must be expressible as text)
    std::vector<Node> nodes;
    std::vector<std::string> keys;                              // every key the table knows (full paths)
    std::vector<std::pair<std::string, std::string>> bundles;   // pointer-bundle keys (full path, text) to re-add before a re-import
    std::ostringstream log;                                     // "key=value" list for the case description
    GenCtx(vf::Tape &t, ptree &in, Arena &a) : t(t), in(in), arena(a) {}
};

inline std::string fmt(double v) { char b[64]; snprintf(b, sizeof b, "%.17g", v); return b; }
inline std::string fmt(float v) { char b[64]; snprintf(b, sizeof b, "%.9g", static_cast<double>(v)); return b; }
inline std::string fmt(bool v) { return v ? "1" : "0"; }
inline std::string fmt(int v) { return std::to_string(v); }
inline std::string fmt(unsigned v) { return std::to_string(v); }
inline std::string fmt(long v) { return std::to_string(v); }
inline std::string fmt(unsigned long v) { return std::to_string(v); }
inline std::string fmt(side_t v) { return v == amgcl::preconditioner::side::left ? "left" : "right"; }
inline std::string fmt(double *v) { char b[64]; snprintf(b, sizeof b, "0x%" PRIxPTR, reinterpret_cast<uintptr_t>(v)); return b; }
inline std::string fmt(const ptree &) { return "<tree>"; }

// independent reading of the text the library stored: does it denote v?
inline bool denotes(const std::string &s, double v) { char *e = nullptr; double x = strtod(s.c_str(), &e); return e && *e == 0 && !s.empty() && x == v; }
inline bool denotes(const std::string &s, float v) { char *e = nullptr; float x = strtof(s.c_str(), &e); return e && *e == 0 && !s.empty() && x == v; }
inline bool denotes(const std::string &s, bool v) { return v ? (s == "true" || s == "1") : (s == "false" || s == "0"); }
inline bool denotes_ll(const std::string &s, long long v) { char *e = nullptr; long long x = strtoll(s.c_str(), &e, 10); return e && *e == 0 && !s.empty() && x == v; }
inline bool denotes_ull(const std::string &s, unsigned long long v) { char *e = nullptr; if (s.empty() || s[0] == '-') return false; unsigned long long x = strtoull(s.c_str(), &e, 10); return e && *e == 0 && x == v; }
inline bool denotes(const std::string &s, int v) { return denotes_ll(s, v); }
inline bool denotes(const std::string &s, long v) { return denotes_ll(s, v); }
inline bool denotes(const std::string &s, unsigned v) { return denotes_ull(s, v); }
inline bool denotes(const std::string &s, unsigned long v) { return denotes_ull(s, v); }
inline bool denotes(const std::string &s, side_t v) { return s == fmt(v); }
inline bool denotes(const std::string &s, double *v) { char *e = nullptr; unsigned long long x = strtoull(s.c_str(), &e, 16); return e && *e == 0 && !s.empty() && x == reinterpret_cast<uintptr_t>(v); }

template <class T, class Enable = void> struct GenVal;
template <> struct GenVal<bool> { static bool gen(GenCtx &, Kind, bool d) { return !d; } };
template <> struct GenVal<side_t> { static side_t gen(GenCtx &, Kind, side_t d) { return d == amgcl::preconditioner::side::left ? amgcl::preconditioner::side::right : amgcl::preconditioner::side::left; } };
template <> struct GenVal<double *> { static double *gen(GenCtx &g, Kind, double *) { return g.arena.doubles(8); } };
template <class T> struct GenVal<T, typename std::enable_if<std::is_integral<T>::value && !std::is_same<T, bool>::value>::type> {
    static T gen(GenCtx &g, Kind k, T d) {
        long lo = 0, hi = 100;
        switch (k) {
        case MAXITER: lo = 1; hi = g.sane ? 80 : 2000; break;
        case DIM: lo = 1; hi = g.sane ? 6 : 9; break;
        case BLOCK: lo = 1; hi = 9; break;
        case CYCLES: lo = g.sane ? 1 : 0; hi = g.sane ? 2 : 4; break;
        case COARSE: lo = 1; hi = g.sane ? 30 : 4000; break;
        case LEVELS: lo = g.sane ? 2 : 1; hi = g.sane ? 6 : 30; break;
        case ROWS: lo = 0; hi = 50; break;
        case SCHUR_TYPE: lo = 1; hi = 2; break;
        case ADJUST_P: lo = 0; hi = 2; break;
        case VERB: lo = 0; hi = 2; break;
        default: break;
        }
        long v = static_cast<long>(g.t.u(lo, hi));
        if (static_cast<T>(v) == d) v = v < hi ? v + 1 : lo;
        return static_cast<T>(v);
    }
};
template <class T> struct GenVal<T, typename std::enable_if<std::is_floating_point<T>::value>::type> {
    static T gen(GenCtx &g, Kind k, T d) {
        vf::Tape &t = g.t;
        double v = 0.5;
        bool pretty = t.chance(1, 4); // a literal a user would type
        switch (k) {
        case TOL: { static const double p[] = {1e-6, 1e-10, 1e-3, 1e-12, 0.01, 1e-5}; v = pretty ? p[t.pick(6)] : (g.sane ? t.logu(1e-12, 1e-2) : t.logu(1e-15, 0.5)); break; }
        case ABSTOL: { static const double p[] = {1e-12, 1e-30, 1e-8, 1e-100}; v = pretty ? p[t.pick(4)] : (g.sane ? t.logu(1e-300, 1e-12) : t.logu(1e-305, 1e3)); break; }
        case DAMP: { static const double p[] = {0.5, 0.8, 0.9, 0.6, 1.1, 0.65}; v = pretty ? p[t.pick(6)] : (g.sane ? t.uni(0.4, 1.05) : t.uni(0.01, 1.99)); break; }
        case FRAC: { static const double p[] = {0.1, 0.5, 0.05, 0.3, 0.01, 0.15}; v = pretty ? p[t.pick(6)] : (g.sane ? t.uni(0.02, 0.5) : t.uni(1e-4, 0.999)); break; }
        case OVER: { static const double p[] = {1.2, 1.8, 0.9, 1.1, 1.3, 0.75}; v = pretty ? p[t.pick(6)] : (g.sane ? t.uni(0.7, 1.4) : t.uni(0.5, 2.0)); break; }
        case REAL: { static const double p[] = {3, 0.001, 1.5, 0.05, 4, 0.1}; v = pretty ? p[t.pick(6)] : (g.sane ? t.logu(0.5, 4) : t.logu(1e-4, 50)); break; }
        default: v = t.slogu(1e-6, 1e6); break;
        }
        T r = static_cast<T>(v);
        if (r == d) r = static_cast<T>(r * static_cast<T>(0.75));
        return r;
    }
};

template <class T> typename std::enable_if<std::is_integral<T>::value>::type set_int(T &v, size_t b) { v = static_cast<T>(b); }
template <class T> typename std::enable_if<!std::is_integral<T>::value>::type set_int(T &, size_t) {}

// two routes into the tree: the typed put a C++ caller uses, or text as it arrives from a command line / JSON file
template <class T> void put_value(GenCtx &g, const std::string &key, const T &v) {
    if (g.t.b()) g.in.put(key, fmt(v)); else g.in.put(key, v);
    g.log << " " << key << "=" << fmt(v);
}
inline void put_value(GenCtx &g, const std::string &key, const bool &v) {
    switch (g.t.u(0, 2)) { case 0: g.in.put(key, v); break; case 1: g.in.put(key, std::string(v ? "true" : "false")); break; default: g.in.put(key, std::string(v ? "1" : "0")); }
    g.log << " " << key << "=" << fmt(v);
}

// ---------------------------------------------------------------------------------------------- the table
template <class P> struct Desc; // specialised below for every params struct

enum RtKind { RT_COARSENING, RT_RELAX, RT_SOLVER, RT_PRECOND };
inline const std::vector<std::string> &rt_names(RtKind k) {
    static const std::vector<std::string> c = {"ruge_stuben", "aggregation", "smoothed_aggregation", "smoothed_aggr_emin"};
    static const std::vector<std::string> r = {"gauss_seidel", "ilu0", "iluk", "ilup", "ilut", "damped_jacobi", "spai0", "spai1", "chebyshev"};
    static const std::vector<std::string> s = {"cg", "bicgstab", "bicgstabl", "gmres", "lgmres", "fgmres", "idrs", "richardson", "preonly"};
    static const std::vector<std::string> p = {"amg", "relaxation", "dummy", "nested"};
    return k == RT_COARSENING ? c : k == RT_RELAX ? r : k == RT_SOLVER ? s : p;
}
inline const char *rt_default(RtKind k) { return k == RT_COARSENING ? "smoothed_aggregation" : k == RT_RELAX ? "spai0" : k == RT_SOLVER ? "bicgstab" : "amg"; }
inline const char *rt_selector(RtKind k) { return k == RT_PRECOND ? "class" : "type"; }

// fills `sub` (rooted at g.in's path `path`) with the selector key and the fields of the selected component; returns its name ("" = selector absent)
inline std::string gen_runtime_tree(GenCtx &g, RtKind kind, const std::string &path, int force = -1);

// ---- generator visitor
template <class P> struct GenV {
    P &model; GenCtx &g; std::string path; bool deferred;
    template <class Q, class T> void value(const char *key, T Q::*pm, Kind k) {
        g.keys.push_back(path + key);
        if (!g.t.chance(g.set_num, g.set_den)) return;
        if (g.sane && k == VERBOSE) return;
        T v = GenVal<T>::gen(g, k, model.*pm);
        if (g.sane && k == BLOCK) { // a divisor of the number of rows, or leave the default
            size_t b = 2 + g.t.pick(4);
            if (g.rows == 0 || g.rows % b != 0) return;
            set_int(v, b);
        }
        model.*pm = v;
        put_value(g, path + key, v);
        ++g.nset;
    }
    template <class Q, class C> void child(const char *key, C Q::*pm) {
        g.keys.push_back(path + key);
        g.nodes.push_back(Node{path + key + ".", deferred});
        GenV<C> sub{model.*pm, g, path + key + ".", deferred};
        Desc<C>::visit(sub);
    }
    template <class Q> void tree(const char *key, ptree Q::*pm, RtKind kind) {
        g.keys.push_back(path + key);
        size_t k0 = g.keys.size();
        gen_runtime_tree(g, kind, path + key + ".");
        (void)k0;
        auto ch = g.in.get_child_optional(path + key);
        if (ch) model.*pm = *ch;
    }
    void accepted(const char *key) { g.keys.push_back(path + key); }
    // nullspace_params: cols, rows, B describe a user array of rows x cols doubles (row-major); copied into params::B
    void nullspace_bundle() {
        g.keys.push_back(path + "cols"); g.keys.push_back(path + "rows"); g.keys.push_back(path + "B");
        if (!g.t.chance(1, 4)) return;
        if (g.no_pointers || (g.sane && g.rows == 0)) return;
        int cols = static_cast<int>(g.t.u(1, g.sane ? 2 : 3)); size_t rows = g.sane ? g.rows : static_cast<size_t>(g.t.u(1, 6));
        double *b = g.arena.doubles(rows * cols);
        if (g.sane) for (size_t i = 0; i < rows; ++i) for (int j = 0; j < cols; ++j) b[i * cols + j] = j == 0 ? 1.0 : static_cast<double>(i % 7) - 3.0; // constant + a non-constant vector
        else for (size_t i = 0; i < rows * cols; ++i) b[i] = g.t.ival(-4, 4) + (i % cols == 0 ? 0.5 : 0.0);
        model.cols = cols; model.B.assign(b, b + rows * cols);
        g.in.put(path + "cols", cols); g.in.put(path + "rows", rows); g.in.put(path + "B", b);
        g.bundles.emplace_back(path + "cols", fmt(cols)); g.bundles.emplace_back(path + "rows", fmt(static_cast<unsigned long>(rows))); g.bundles.emplace_back(path + "B", fmt(b));
        g.log << " " << path << "{cols=" << cols << ",rows=" << rows << ",B}";
        ++g.nset;
    }
    // schur_pressure_correction: pmask_size is mandatory, with either a pattern or an array of pmask_size chars
    void pmask_bundle() {
        g.keys.push_back(path + "pmask_size"); g.keys.push_back(path + "pmask_pattern"); g.keys.push_back(path + "pmask");
        size_t n = static_cast<size_t>(g.t.u(1, 12));
        model.pmask.assign(n, 0);
        g.in.put(path + "pmask_size", n); g.bundles.emplace_back(path + "pmask_size", fmt(static_cast<unsigned long>(n)));
        int form = static_cast<int>(g.t.u(0, 3));
        std::string pat;
        if (form == 0) { int start = static_cast<int>(g.t.u(0, 3)), stride = static_cast<int>(g.t.u(1, 4)); pat = "%" + std::to_string(start) + ":" + std::to_string(stride); for (size_t i = start; i < n; i += stride) model.pmask[i] = 1; }
        else if (form == 1) { size_t m = static_cast<size_t>(g.t.u(0, 14)); pat = "<" + std::to_string(m); for (size_t i = 0; i < n && i < m; ++i) model.pmask[i] = 1; }
        else if (form == 2) { size_t m = static_cast<size_t>(g.t.u(0, 14)); pat = ">" + std::to_string(m); for (size_t i = m; i < n; ++i) model.pmask[i] = 1; }
        if (form < 3) { g.in.put(path + "pmask_pattern", pat); g.bundles.emplace_back(path + "pmask_pattern", pat); g.log << " " << path << "pmask_pattern=" << pat << "/" << n; }
        else {
            char *pm = g.arena.chars(n);
            for (size_t i = 0; i < n; ++i) { pm[i] = g.t.b() ? 1 : 0; model.pmask[i] = pm[i]; }
            g.in.put(path + "pmask", static_cast<void *>(pm));
            char b[64]; snprintf(b, sizeof b, "0x%" PRIxPTR, reinterpret_cast<uintptr_t>(pm)); g.bundles.emplace_back(path + "pmask", b);
            g.log << " " << path << "pmask[" << n << "]";
        }
    }
    // cpr_drs: optional user weights
    void weights_bundle() {
        g.keys.push_back(path + "weights"); g.keys.push_back(path + "weights_size");
        if (!g.t.chance(1, 4)) return;
        size_t n = static_cast<size_t>(g.t.u(1, 8));
        double *w = g.arena.doubles(n);
        for (size_t i = 0; i < n; ++i) w[i] = g.t.ival(1, 9) * 0.25;
        model.weights.assign(w, w + n);
        g.in.put(path + "weights", static_cast<void *>(w)); g.in.put(path + "weights_size", n);
        g.bundles.emplace_back(path + "weights", fmt(w)); g.bundles.emplace_back(path + "weights_size", fmt(static_cast<unsigned long>(n)));
        g.log << " " << path << "weights[" << n << "]";
        ++g.nset;
    }
};

// ---- typed comparison visitor
template <class P> struct CmpV {
    const P &exp; const P &got; std::string path; const char *what;
    template <class Q, class T> void value(const char *key, T Q::*pm, Kind) {
        VF_REQUIRE(exp.*pm == got.*pm, what << ": " << Desc<P>::name() << " field '" << path << key << "' is " << fmt(got.*pm) << ", expected " << fmt(exp.*pm));
    }
    template <class Q, class C> void child(const char *key, C Q::*pm) { CmpV<C> sub{exp.*pm, got.*pm, path + key + ".", what}; Desc<C>::visit(sub); }
    template <class Q> void tree(const char *key, ptree Q::*pm, RtKind) {
        VF_REQUIRE(exp.*pm == got.*pm, what << ": " << Desc<P>::name() << " subtree '" << path << key << "' differs");
    }
    void accepted(const char *) {}
    void nullspace_bundle() {
        VF_REQUIRE(exp.cols == got.cols, what << ": nullspace cols " << got.cols << ", expected " << exp.cols << " at '" << path << "'");
        VF_REQUIRE(exp.B == got.B, what << ": nullspace vectors were not taken over from the user array at '" << path << "'");
    }
    void pmask_bundle() { VF_REQUIRE(exp.pmask == got.pmask, what << ": pressure mask differs from the documented meaning of pmask/pmask_pattern at '" << path << "'"); }
    void weights_bundle() { VF_REQUIRE(exp.weights == got.weights, what << ": weights were not taken over from the user array at '" << path << "'"); }
};

// ---- export visitor: `out` is the tree written by get(out, prefix); path includes the prefix
template <class P> struct ExpV {
    const P &got; const ptree &out; std::string path;
    std::set<std::string> names;
    template <class Q, class T> void value(const char *key, T Q::*pm, Kind) {
        names.insert(key);
        auto s = out.get_optional<std::string>(path + key);
        VF_REQUIRE(s, "export of " << Desc<P>::name() << " does not contain the value parameter '" << path << key << "'");
        VF_REQUIRE(denotes(*s, got.*pm), "export of " << Desc<P>::name() << " wrote '" << path << key << "' = \"" << *s << "\" but the parameter is " << fmt(got.*pm));
        VF_REQUIRE(out.get_child(path + key).empty(), "exported value '" << path << key << "' has children");
    }
    template <class Q, class C> void child(const char *key, C Q::*pm) {
        names.insert(key);
        ExpV<C> sub{got.*pm, out, path + key + ".", {}};
        Desc<C>::visit(sub);
        sub.finish();
    }
    template <class Q> void tree(const char *key, ptree Q::*pm, RtKind) {
        names.insert(key);
        auto ch = out.get_child_optional(path + key);
        VF_REQUIRE(ch, "export of " << Desc<P>::name() << " does not contain the subtree '" << path << key << "'");
        VF_REQUIRE(*ch == got.*pm, "export of " << Desc<P>::name() << " wrote a different subtree '" << path << key << "'");
    }
    void accepted(const char *key) { names.insert(key); }
    void nullspace_bundle() { names.insert("cols"); names.insert("rows"); names.insert("B"); }
    void pmask_bundle() { names.insert("pmask_size"); names.insert("pmask_pattern"); names.insert("pmask"); }
    void weights_bundle() { names.insert("weights"); names.insert("weights_size"); }
    // every key the library exported at this level must be a key of the table
    void finish() {
        const ptree *node = &out;
        if (!path.empty()) { auto ch = out.get_child_optional(path.substr(0, path.size() - 1)); if (!ch) return; node = &*ch; }
        for (auto &kv : *node)
            VF_REQUIRE(names.count(kv.first), "harness table outdated: export of " << Desc<P>::name() << " produced key '" << path << kv.first
                       << "' which props/c14_components.hpp does not list (add the field to the table)");
    }
};


// ---- layout visitor: which bytes of the struct does the table describe? A field added to a struct but not to the table
// leaves a hole larger than alignment padding (tripwire for an outdated table; a small field that fits into padding escapes it).
template <class P> struct LayoutV {
    const P &obj; std::vector<std::pair<size_t, size_t>> &ranges; // [begin,end) offsets relative to the outermost struct
    const char *base;
    template <class M> void add(const M &m) { size_t b = static_cast<size_t>(reinterpret_cast<const char *>(&m) - base); ranges.emplace_back(b, b + sizeof(M)); }
    template <class Q, class T> void value(const char *, T Q::*pm, Kind) { add(obj.*pm); }
    template <class Q, class C> void child(const char *, C Q::*pm) {
        if (std::is_empty<C>::value) { add(obj.*pm); return; }
        LayoutV<C> sub{obj.*pm, ranges, base}; Desc<C>::visit(sub);
    }
    template <class Q> void tree(const char *, ptree Q::*pm, RtKind) { add(obj.*pm); }
    void accepted(const char *) {}
    void nullspace_bundle() { add(obj.cols); add(obj.B); }
    void pmask_bundle() { add(obj.pmask); }
    void weights_bundle() { add(obj.weights); }
};
template <class P> void require_layout_described(const char *label) {
    P obj;
    std::vector<std::pair<size_t, size_t>> r;
    LayoutV<P> lv{obj, r, reinterpret_cast<const char *>(&obj)};
    Desc<P>::visit(lv);
    std::sort(r.begin(), r.end());
    size_t pos = 0, hole = 0;
    for (auto &x : r) { if (x.first > pos) hole = std::max(hole, x.first - pos); pos = std::max(pos, x.second); }
    hole = std::max(hole, sizeof(P) - pos);
    if (r.empty() && sizeof(P) <= 1) hole = 0;
    VF_REQUIRE(hole < 8, "harness table outdated: " << label << " (" << Desc<P>::name() << ", " << sizeof(P) << " bytes) has " << hole
               << " consecutive bytes that no field of the table in props/c14_components.hpp describes (a parameter was added to the library)");
}

// ---------------------------------------------------------------------------------------------- Desc<P> for every struct
#define C14_DESC(...) template <> struct Desc<__VA_ARGS__> { typedef __VA_ARGS__ P; static const char *name() { return #__VA_ARGS__; } template <class V> static void visit(V &v); }; \
    template <class V> void Desc<__VA_ARGS__>::visit(V &v)

template <class P, class V> void solver_tail(V &v) { // the five parameters every iterative solver has
    v.value("maxiter", &P::maxiter, MAXITER); v.value("tol", &P::tol, TOL); v.value("abstol", &P::abstol, ABSTOL);
    v.value("ns_search", &P::ns_search, FLAG); v.value("verbose", &P::verbose, VERBOSE);
}

// solvers
C14_DESC(so::cg<B>::params) { solver_tail<P>(v); }
C14_DESC(so::bicgstab<B>::params) { v.value("pside", &P::pside, SIDE); v.value("check_after", &P::check_after, FLAG); solver_tail<P>(v); }
C14_DESC(so::bicgstabl<B>::params) { v.value("L", &P::L, DIM); v.value("delta", &P::delta, FRAC); v.value("convex", &P::convex, FLAG); v.value("pside", &P::pside, SIDE); solver_tail<P>(v); }
C14_DESC(so::gmres<B>::params) { v.value("M", &P::M, DIM); v.value("pside", &P::pside, SIDE); solver_tail<P>(v); }
C14_DESC(so::fgmres<B>::params) { v.value("M", &P::M, DIM); solver_tail<P>(v); }
C14_DESC(so::lgmres<B>::params) { v.value("M", &P::M, DIM); v.value("K", &P::K, DIM); v.value("always_reset", &P::always_reset, FLAG); v.value("pside", &P::pside, SIDE); solver_tail<P>(v); }
C14_DESC(so::idrs<B>::params) { v.value("s", &P::s, DIM); v.value("omega", &P::omega, OVER); v.value("smoothing", &P::smoothing, FLAG); v.value("replacement", &P::replacement, FLAG); solver_tail<P>(v); }
C14_DESC(so::richardson<B>::params) { v.value("damping", &P::damping, DAMP); solver_tail<P>(v); }
// preonly, spai0, spai1, dummy, builtin backend: amgcl::detail::empty_params (no field; every key is unknown)
C14_DESC(amgcl::detail::empty_params) { (void)v; }

// relaxation
C14_DESC(re::detail::ilu_solve<B>::params) { v.value("serial", &P::serial, FLAG); }
C14_DESC(re::detail::ilu_solve<other_backend>::params) { v.value("iters", &P::iters, DIM); v.value("damping", &P::damping, DAMP); }
C14_DESC(re::damped_jacobi<B>::params) { v.value("damping", &P::damping, DAMP); }
C14_DESC(re::gauss_seidel<B>::params) { v.value("serial", &P::serial, FLAG); }
C14_DESC(re::chebyshev<B>::params) { v.value("degree", &P::degree, DIM); v.value("higher", &P::higher, OVER); v.value("lower", &P::lower, FRAC); v.value("power_iters", &P::power_iters, DIM); v.value("scale", &P::scale, FLAG); }
C14_DESC(re::ilu0<B>::params) { v.value("damping", &P::damping, DAMP); v.child("solve", &P::solve); v.accepted("k"); }
C14_DESC(re::iluk<B>::params) { v.value("k", &P::k, DIM); v.value("damping", &P::damping, DAMP); v.child("solve", &P::solve); }
C14_DESC(re::ilup<B>::params) { v.value("k", &P::k, DIM); v.value("damping", &P::damping, DAMP); v.child("solve", &P::solve); }
C14_DESC(re::ilut<B>::params) { v.value("p", &P::p, REAL); v.value("tau", &P::tau, FRAC); v.value("damping", &P::damping, DAMP); v.child("solve", &P::solve); }

// coarsening
C14_DESC(co::nullspace_params) { v.nullspace_bundle(); }
C14_DESC(co::plain_aggregates::params) { v.value("eps_strong", &P::eps_strong, FRAC); v.accepted("block_size"); }
C14_DESC(co::pointwise_aggregates::params) { v.value("eps_strong", &P::eps_strong, FRAC); v.value("block_size", &P::block_size, BLOCK); }
C14_DESC(co::aggregation<B>::params) { v.child("aggr", &P::aggr); v.child("nullspace", &P::nullspace); v.value("over_interp", &P::over_interp, OVER); }
C14_DESC(co::smoothed_aggregation<B>::params) {
    v.child("aggr", &P::aggr); v.child("nullspace", &P::nullspace); v.value("relax", &P::relax, OVER);
    v.value("estimate_spectral_radius", &P::estimate_spectral_radius, FLAG); v.value("power_iters", &P::power_iters, DIM);
}
C14_DESC(co::smoothed_aggr_emin<B>::params) { v.child("aggr", &P::aggr); v.child("nullspace", &P::nullspace); }
C14_DESC(co::ruge_stuben<B>::params) { v.value("eps_strong", &P::eps_strong, FRAC); v.value("do_trunc", &P::do_trunc, FLAG); v.value("eps_trunc", &P::eps_trunc, FRAC); }

// back-end parameters
C14_DESC(amgcl::backend::block_crs<double>::params) { v.value("block_size", &P::block_size, DIM); }

// amg
template <class P, class V> void amg_values(V &v) {
    v.value("coarse_enough", &P::coarse_enough, COARSE); v.value("direct_coarse", &P::direct_coarse, FLAG); v.value("max_levels", &P::max_levels, LEVELS);
    v.value("npre", &P::npre, CYCLES); v.value("npost", &P::npost, CYCLES); v.value("ncycle", &P::ncycle, CYCLES); v.value("pre_cycles", &P::pre_cycles, CYCLES);
    v.value("allow_rebuild", &P::allow_rebuild, FLAG);
}
#define C14_AMG_DESC(T) C14_DESC(T::params) { v.child("coarsening", &P::coarsening); v.child("relax", &P::relax); amg_values<P>(v); }
#define C14_MAKE_SOLVER_DESC(T) C14_DESC(T::params) { v.child("precond", &P::precond); v.child("solver", &P::solver); }

// run-time assembled classes: the children are property trees interpreted by the wrappers
typedef amgcl::amg<B, rt::coarsening::wrapper, rt::relaxation::wrapper> RtAMG;
typedef amgcl::make_solver<RtAMG, rt::solver::wrapper<B>> RtSolverAMG; // the type behind the C interface
C14_DESC(RtAMG::params) { v.tree("coarsening", &P::coarsening, RT_COARSENING); v.tree("relax", &P::relax, RT_RELAX); amg_values<P>(v); }
C14_DESC(RtSolverAMG::params) { v.child("precond", &P::precond); v.tree("solver", &P::solver, RT_SOLVER); }
#ifndef C14_NO_RUNTIME_PRECOND
typedef amgcl::make_solver<rt::preconditioner<B>, rt::solver::wrapper<B>> RtSolver;
C14_DESC(RtSolver::params) { v.tree("precond", &P::precond, RT_PRECOND); v.tree("solver", &P::solver, RT_SOLVER); }
#endif

// ---------------------------------------------------------------------------------------------- run-time subtrees
template <class P> void gen_typed_at(GenCtx &g, const std::string &path) {
    P model;
    GenV<P> gv{model, g, path, true};
    Desc<P>::visit(gv);
}

inline std::string gen_runtime_tree(GenCtx &g, RtKind kind, const std::string &path, int force) {
    const std::vector<std::string> &names = rt_names(kind);
    g.keys.push_back(path + rt_selector(kind));
    g.nodes.push_back(Node{path, true});
    int pickmax = static_cast<int>(names.size());
    if (kind == RT_PRECOND && g.depth >= 1) pickmax = 3; // no second level of nesting
    int k = force >= 0 ? force + 1 : static_cast<int>(g.t.u(0, pickmax)); // 0: selector absent -> documented default component
    std::string name = k == 0 ? "" : names[k - 1];
    if (k > 0) { g.in.put(path + rt_selector(kind), name); g.log << " " << path << rt_selector(kind) << "=" << name; }
    std::string eff = k == 0 ? rt_default(kind) : name;
    switch (kind) {
    case RT_COARSENING:
        if (eff == "ruge_stuben") gen_typed_at<co::ruge_stuben<B>::params>(g, path);
        else if (eff == "aggregation") gen_typed_at<co::aggregation<B>::params>(g, path);
        else if (eff == "smoothed_aggregation") gen_typed_at<co::smoothed_aggregation<B>::params>(g, path);
        else gen_typed_at<co::smoothed_aggr_emin<B>::params>(g, path);
        break;
    case RT_RELAX:
        if (eff == "gauss_seidel") gen_typed_at<re::gauss_seidel<B>::params>(g, path);
        else if (eff == "ilu0") gen_typed_at<re::ilu0<B>::params>(g, path);
        else if (eff == "iluk") gen_typed_at<re::iluk<B>::params>(g, path);
        else if (eff == "ilup") gen_typed_at<re::ilup<B>::params>(g, path);
        else if (eff == "ilut") gen_typed_at<re::ilut<B>::params>(g, path);
        else if (eff == "damped_jacobi") gen_typed_at<re::damped_jacobi<B>::params>(g, path);
        else if (eff == "chebyshev") gen_typed_at<re::chebyshev<B>::params>(g, path);
        break; // spai0, spai1: no parameters
    case RT_SOLVER:
        if (eff == "cg") gen_typed_at<so::cg<B>::params>(g, path);
        else if (eff == "bicgstab") gen_typed_at<so::bicgstab<B>::params>(g, path);
        else if (eff == "bicgstabl") gen_typed_at<so::bicgstabl<B>::params>(g, path);
        else if (eff == "gmres") gen_typed_at<so::gmres<B>::params>(g, path);
        else if (eff == "lgmres") gen_typed_at<so::lgmres<B>::params>(g, path);
        else if (eff == "fgmres") gen_typed_at<so::fgmres<B>::params>(g, path);
        else if (eff == "idrs") gen_typed_at<so::idrs<B>::params>(g, path);
        else if (eff == "richardson") gen_typed_at<so::richardson<B>::params>(g, path);
        break; // preonly: no parameters
    case RT_PRECOND:
        if (eff == "amg") gen_typed_at<RtAMG::params>(g, path);
        else if (eff == "relaxation") { g.nodes.pop_back(); gen_runtime_tree(g, RT_RELAX, path); }
        else if (eff == "nested") {
            ++g.depth;
            g.keys.push_back(path + "precond"); gen_runtime_tree(g, RT_PRECOND, path + "precond.");
            g.keys.push_back(path + "solver"); gen_runtime_tree(g, RT_SOLVER, path + "solver.");
            --g.depth;
        }
        break; // dummy: no parameters
    }
    return name;
}

// ---------------------------------------------------------------------------------------------- helpers shared by the C14 executables
inline std::set<std::string> local_names(const std::vector<std::string> &keys) {
    std::set<std::string> s;
    for (auto &k : keys) { size_t p = k.rfind('.'); s.insert(p == std::string::npos ? k : k.substr(p + 1)); }
    return s;
}

// an unknown key as a user would produce it: a typo of a neighbouring key or a made-up name; never equal to any key name of the table
inline std::string extra_name(vf::Tape &t, const GenCtx &g, const std::set<std::string> &known, const std::set<std::string> &taken) {
    static const char *made_up[] = {"tolerance", "max_iter", "iters_max", "omega_relax", "smoother", "levels", "eps", "type_", "coarse", "Type", "zz_unknown"};
    std::string base;
    if (!g.keys.empty() && t.b()) {
        std::string k = g.keys[t.pick(g.keys.size())];
        size_t p = k.rfind('.'); base = p == std::string::npos ? k : k.substr(p + 1);
        switch (t.u(0, 3)) { case 0: base += "s"; break; case 1: base[0] = static_cast<char>(toupper(base[0])); break; case 2: base = "_" + base; break; default: base += "_"; }
    } else base = made_up[t.pick(sizeof(made_up) / sizeof(made_up[0]))];
    while (known.count(base) || taken.count(base)) base += "x";
    return base;
}

// put an extra key at a struct-level node: a leaf value or a small subtree
inline void inject_extra(vf::Tape &t, ptree &in, const std::string &node, const std::string &name) {
    switch (t.u(0, 2)) {
    case 0: in.put(node + name, "1"); break;
    case 1: in.put(node + name, "some text"); break;
    default: in.put(node + name + ".a", 1); in.put(node + name + ".b.c", "x"); break;
    }
}

inline std::string set_to_string(const std::set<std::string> &s) { std::string o = "{"; for (auto &x : s) o += (o.size() > 1 ? "," : "") + x; return o + "}"; }

} // namespace c14
