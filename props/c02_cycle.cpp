// C02 — the AMG cycle is a fixed linear, symmetric positive definite, contracting operator.
//
// One hierarchy per case, configured through the runtime wrappers (all 4 coarsenings x 9 relaxations in one TU):
//   B := [apply(e_1) ... apply(e_n)]                       (column-by-column extraction)
//   history independence   apply(f) before == after the n unrelated applies, bitwise; dirty output vector irrelevant
//   linearity              apply(a f + b g) vs a B f + b B g, rounding-bounded
//   symmetry, positivity   symmetric smoother list, npre == npost
//   contraction            rho(I - B A) < 1 (symmetric eigen-solver when B is symmetric, general otherwise)
//   scaling                hierarchy of 2^k A gives B' with 2^k B' == B bitwise (ILUT excepted)
#include <iomanip>
#include "c02_common.hpp"

using namespace vf;
using namespace c02;

static bool trace_on() { static bool v = env_flag("VF_C02_TRACE"); return v; }

static void prop_cycle(Tape &t, Ctx &c) {
    // ---- matrix: SPD irreducibly diagonally dominant M-matrix, contrast <= 100
    GenMat gm = gen_mmat_case(t, {0, 1, 1, 2, 2, 3}, {1, 8, 30, 80}, {12, 40, 100, 200}, 100.0, true);
    const Graph &g = gm.g; const MmatInfo &mi = gm.mi; Csr<double> A = gm.A;
    ptrdiff_t n = A.n;

    // ---- configuration
    AmgCfg cfg;
    cfg.coars = static_cast<int>(t.u(0, 3));
    cfg.relax = static_cast<int>(t.u(0, 8));
    int ce_mode = static_cast<int>(t.u(0, 7)); // word 0 -> single level, exact solve
    cfg.coarse_enough = ce_mode == 0 ? static_cast<unsigned>(n) : ce_mode <= 5 ? static_cast<unsigned>(t.u(1, 8)) : static_cast<unsigned>(t.u(1, std::max<ptrdiff_t>(1, n / 3)));
    if (t.chance(1, 4)) cfg.max_levels = static_cast<unsigned>(t.u(1, 4));
    gen_component_params(t, cfg, true);

    std::vector<double> f = seeded_vec(t, n), gq = seeded_vec(t, n);
    double alpha = t.b() ? static_cast<double>(t.u(-3, 3)) : t.slogu(1e-3, 1e3);
    double beta = t.b() ? static_cast<double>(t.u(-3, 3)) : t.slogu(1e-3, 1e3);
    int kexp = static_cast<int>(t.u(0, 40)) - 20; if (kexp == 0) kexp = 1;
    // npre / npost = 0 (V(0,nu), W(0,nu), V(nu,0) cycles; npre + npost >= 1).  Read last so that older saved tapes keep their meaning.
    { int z = static_cast<int>(t.u(0, 7)); if (z >= 4 && z <= 6) cfg.npre = 0; else if (z == 7) cfg.npost = 0; }
    // coarsening.aggr.block_size (pointwise aggregation) for the aggregation-type coarsenings; read last as well.  The matrix
    // then needs a size that is a multiple of the block size: either the generated scalar M-matrix itself, padded with
    // unknowns that are chained to the last one (unknowns 2I, 2I+1 form a "node": neighbouring block columns of different
    // strength through contrast / anisotropy), or bs copies of it coupled node-wise, A (x) I + blockdiag(c_i S).
    std::string bs_kind;
    {
        int z = static_cast<int>(t.u(0, 7)); int variant = static_cast<int>(t.u(0, 2));
        unsigned bs = z <= 4 ? 1u : z <= 6 ? 2u : 3u;
        if (bs > 1 && cfg.coars != RS) {
            cfg.block_size = bs;
            std::vector<std::map<ptrdiff_t, double>> rows;
            if (variant == 2 && n <= 80) { // bs coupled copies: A (x) I + blockdiag(c_i S), S = tridiag(-q, 1, -q), c_i = a_ii / 2: an SPD M-matrix again
                bs_kind = "coupled"; const double q = 0.3;
                rows.resize(n * bs);
                for (ptrdiff_t i = 0; i < n; ++i) for (ptrdiff_t j = A.ptr[i]; j < A.ptr[i + 1]; ++j) {
                    for (unsigned a = 0; a < bs; ++a) rows[i * bs + a][A.col[j] * bs + a] += A.val[j];
                    if (A.col[j] == i) for (unsigned a = 0; a < bs; ++a) for (unsigned b2 = 0; b2 < bs; ++b2) {
                        double sv = a == b2 ? 1.0 : (a + 1 == b2 || b2 + 1 == a) ? -q : 0.0;
                        if (sv != 0) rows[i * bs + a][i * bs + b2] += 0.5 * A.val[j] * sv;
                    }
                }
                std::vector<double> f2(n * bs), g2(n * bs);
                for (ptrdiff_t i = 0; i < n * static_cast<ptrdiff_t>(bs); ++i) { f2[i] = f[i / bs] * (1.0 + 0.25 * (i % bs)); g2[i] = gq[i / bs] * (1.0 - 0.125 * (i % bs)); }
                f = f2; gq = g2; n *= bs;
            } else { // the scalar matrix itself, padded to a multiple of bs
                bs_kind = "reblocked";
                ptrdiff_t pad = (bs - n % bs) % bs;
                rows.resize(n + pad);
                for (ptrdiff_t i = 0; i < n; ++i) for (ptrdiff_t j = A.ptr[i]; j < A.ptr[i + 1]; ++j) rows[i][A.col[j]] += A.val[j];
                for (ptrdiff_t k = 0; k < pad; ++k) { ptrdiff_t a = n + k - 1, b2 = n + k; rows[a][a] += 1.0; rows[a][b2] = -1.0; rows[b2][a] = -1.0; rows[b2][b2] = 2.0; f.push_back(1.0); gq.push_back(-0.5); }
                n += pad;
            }
            A = from_triplets<double>(n, n, rows);
            c.label("aggr.block_size=" + std::to_string(bs) + ":" + bs_kind);
        }
    }

    c.desc << "cycle " << g.family << " n=" << n << " nnz=" << A.nnz() << " contrast=" << mi.contrast << " aniso=" << mi.aniso << " shifts=" << mi.shifts
           << (bs_kind.empty() ? "" : " [" + bs_kind + " -> n=" + std::to_string(n) + "]") << " | " << cfg.str() << " | alpha=" << alpha << " beta=" << beta << " k=" << kexp << " A=" << dump_small(A, 8);

    // smoothed aggregation with relax = 1.5 (omega = 1 exactly) zeroes the prolongation of such dragged-along unknowns as well
    // (see F-emin-pointwise-isolated-column in c02_common.hpp); that parameter edge is reported, not generated: 1.25 instead.
    if (cfg.block_size > 1 && cfg.sa_relax == 1.5) cfg.sa_relax = 1.25;
    ptree prm; cfg.put_amg(prm, "");
    auto Acrs = to_crs<double>(A);
    double coarse_cond = 1; // emin with block_size > 1: largest condition number of a coarse operator (near rank deficiency short of the region below)
    // Known finding F-emin-pointwise-rank-deficient (c02_common.hpp): evaluated on a hierarchy with the same transfer operators
    // that keeps every level matrix and cannot throw (spai0, no direct coarse solve), before the real one is built.
    if (cfg.coars == EMIN && cfg.block_size > 1) {
        ptree p2; AmgCfg c2 = cfg; c2.relax = SPAI0; c2.direct_coarse = false; c2.put_amg(p2, "");
        RtAmg probe(*Acrs, p2);
        std::string why = coarse_level_singular(probe, &coarse_cond);
        if (why.empty()) why = pointwise_isolated_column(probe, cfg.eps_strong, cfg.block_size);
        if (!why.empty()) { c.label("emin:pointwise-rank-deficient"); c.desc << " | F-emin-pointwise-rank-deficient: " << why; if (c.known("F-emin-pointwise-rank-deficient")) return; }
    }
    std::unique_ptr<RtAmg> amg;
    amg.reset(new RtAmg(*Acrs, prm));
    LevelInfo li = level_info(*amg);

    c.label(std::string("coars:") + coars_name[cfg.coars]);
    c.label(std::string("relax:") + relax_name[cfg.relax]);
    c.label("fam:" + g.family);
    c.label("levels=" + std::to_string(std::min<size_t>(li.levels, 6)));
    c.label(cfg.ncycle == 1 ? "V-cycle" : "W-cycle");
    c.label(cfg.npre == cfg.npost ? "npre==npost" : "npre!=npost"); if (cfg.npre == 0) c.label("npre=0,ncycle=" + std::to_string(cfg.ncycle) + ",pre_cycles=" + std::to_string(cfg.pre_cycles)); if (cfg.npost == 0) c.label("npost=0");
    c.label(li.direct ? "coarse:direct" : "coarse:relaxed");
    c.label(bucket(static_cast<double>(n), {13, 41, 101}, "n"));
    c.nontrivial = li.levels >= 2;

    // ---- degenerate emin aggregates (former finding F-emin, fixed in /repo by a58f297): labelled, asserted like every other case
    if (cfg.coars == EMIN) {
        std::string why = emin_degenerate(*amg, cfg.eps_strong, false, cfg.block_size);
        if (!why.empty()) { c.label("emin:degenerate-aggregate"); c.desc << " | emin degenerate: " << why; }
        // still open after the repair: an aggregate whose A_f P_tent column holds non-zero rounding residues (omega = residue/residue)
        std::string res = emin_degenerate(*amg, cfg.eps_strong, true, cfg.block_size);
        if (!res.empty()) { c.label("emin:residue-aggregate"); c.desc << " | F-emin-residue: " << res; if (c.known("F-emin-residue")) return; }
    }

    // ---- B, history independence
    std::vector<double> x0(n, 0.0), x1(n);
    amg->apply(f, x0);
    Mat B = extract_operator(*amg, n);
    for (ptrdiff_t i = 0; i < n; ++i) x1[i] = 1e300 * ((i & 1) ? -1 : 1);
    amg->apply(f, x1);
    for (ptrdiff_t i = 0; i < n; ++i)
        VF_REQUIRE(std::memcmp(&x0[i], &x1[i], sizeof(double)) == 0, "history dependence: apply(f)[" << i << "] was " << x0[i] << " on the fresh hierarchy and " << x1[i] << " after " << n << " unrelated applies");
    VF_REQUIRE(all_finite(B), "cycle operator has non-finite entries");

    Mat Ad = to_eigen(A);
    double Bn = B.norm(); // Frobenius >= 2-norm
    double Bmax = B.cwiseAbs().maxCoeff();
    double amin, amax; eig_sym(Ad, amin, amax);
    VF_REQUIRE(amin > 0, "generator defect: A not positive definite, lambda_min=" << amin);
    double kappa = std::max(amax / amin, coarse_cond); // rounding scale: the worst conditioned operator that is inverted in the cycle
    c.label(bucket(kappa, {1e2, 1e4, 1e6}, "kappa2"));

    // ---- linearity
    {
        std::vector<double> h(n), y(n, 0.0);
        for (ptrdiff_t i = 0; i < n; ++i) h[i] = alpha * f[i] + beta * gq[i];
        amg->apply(h, y);
        Eigen::Map<const Vec> fv(f.data(), n), gv(gq.data(), n), yv(y.data(), n);
        Vec ref = alpha * (B * fv) + beta * (B * gv);
        double err = (yv - ref).norm();
        // rounding scale: the coarse direct solve and the residuals formed inside the cycle carry errors proportional to
        // kappa(A), not to n (measured: up to 0.25 u kappa ||B|| ||f|| for n = 8, kappa = 3e4), hence (n + kappa2(A)).
        double scale = (16.0 + static_cast<double>(n) + kappa) * U * Bn * (std::abs(alpha) * norm2(f) + std::abs(beta) * norm2(gq));
        double ratio = scale > 0 ? err / scale : (err > 0 ? 1e300 : 0);
        c.label(bucket(ratio, {0.01, 0.1, 1, 4}, "lin-ratio"));
        if (trace_on()) std::cerr << "TRACE lin n=" << n << " kappa=" << kappa << " ratio=" << ratio << " " << cfg.str() << "\n";
        VF_REQUIRE(ratio <= 32.0, "not linear: ||apply(a f + b g) - (a B f + b B g)|| = " << err << " = " << ratio << " x (16 + n + kappa2(A)) u ||B||_F (|a|||f||+|b|||g||), n=" << n << " kappa2(A)=" << kappa);
    }

    // ---- symmetry / positivity (contraction is computed here and asserted last, see below)
    // Known finding F-agg: plain aggregation divides the Galerkin operator by over_interp = a (default 1.5), so every
    // coarse-grid correction over-shoots by the factor a.  For symmetric cycles the standard induction (A-norm, B_l A_l
    // has its spectrum in (0, m_l], m_l <= a m_{l+1}) shows that a V-cycle contracts as long as a^(levels-1) m_c < 2 and a
    // W-cycle as long as a m_c < 2, where m_c = 1 for an exact coarsest solve and, for a relaxed coarsest level,
    // m_c <= 1 only if the coarsest error operator is positive semi-definite (an even number of sweeps of an
    // A-self-adjoint smoother, or symmetric Gauss-Seidel); otherwise m_c can approach 2.  Outside that provable region
    // the clause fails: measured rho = 1.24 (3 levels), 2.34 (4 levels), 3.5 (5 levels) for a = 1.5 with an exact
    // coarsest solve -- the theoretical |1 - a^(levels-1)| on near-null-space components -- and rho = 1.02 for 2 levels
    // with a coarsest level relaxed by three Chebyshev(1) sweeps.  With pre_cycles = 2 the operator (I - E^2) A^-1 is
    // in addition indefinite there.  The region is excluded for the contraction clause (and for positivity when
    // pre_cycles = 2) only; linearity, history independence, symmetry and scaling are asserted inside it as well.
    double ov = cfg.effective_over_interp();
    bool coarsest_psd = li.direct || (cfg.relax != GS && (cfg.npre + cfg.npost) % 2 == 0) || (cfg.relax == GS && cfg.npre == cfg.npost);
    bool fagg_provable = coarsest_psd && (cfg.ncycle >= 2 || std::pow(ov, static_cast<double>(li.levels) - 1.0) < 2.0);
    bool fagg_region = cfg.coars == AGG && ov > 1.0 && li.levels >= 2 && !fagg_provable;
    double rho = -1, bmin = 1, bmax = 1;
    if (cfg.symmetric_smoother()) {
        if (cfg.npre == cfg.npost) {
            double asym = (B - B.transpose()).cwiseAbs().maxCoeff();
            double sratio = asym / ((16.0 + static_cast<double>(n) + kappa) * U * Bmax); // same kappa-aware scale as linearity
            c.label(bucket(sratio, {0.01, 0.1, 1, 8}, "sym-ratio"));
            if (trace_on()) std::cerr << "TRACE sym n=" << n << " kappa=" << kappa << " ratio=" << sratio << " " << cfg.str() << "\n";
            VF_REQUIRE(sratio <= 64.0, "B not symmetric: max|B-B^T| = " << asym << " = " << sratio << " x (16 + n + kappa2(A)) u max|B|, n=" << n << " kappa2(A)=" << kappa);
            eig_sym(B, bmin, bmax); // asserted below
            double mu_min, mu_max;
            VF_REQUIRE(eig_BA_symmetric(B, Ad, mu_min, mu_max), "Cholesky of A failed");
            rho = std::max(std::abs(1 - mu_min), std::abs(1 - mu_max));
        } else {
            rho = rho_general(B, Ad);
        }
        c.label(bucket(rho, {0.1, 0.5, 0.9, 0.99, 1.0}, "rho"));
        if (trace_on()) std::cerr << "TRACE rho n=" << n << " levels=" << li.levels << " kappa=" << kappa << " rho=" << rho << " fam=" << g.family << " shifts=" << mi.shifts << " " << cfg.str() << "\n";
        c.desc << " | levels=" << li.levels << " rho=" << rho;
    }

    // ---- scaling by a power of two
    // Known finding F-rs-abseps: Ruge-Stuben tests entries against the absolute constant 2*DBL_EPSILON, see c02_common.hpp.
    bool rs_abs = false;
    if (cfg.relax != ILUT && cfg.coars == RS) {
        double m = rs_min_offdiag(*amg, std::ldexp(1.0, kexp));
        rs_abs = m < 8 * 4.440892098500626e-16;
        if (rs_abs) c.label("rs:offdiag-near-absolute-eps");
    }
    if (cfg.relax != ILUT && !(rs_abs && !c.include_known)) {
        double s = std::ldexp(1.0, kexp);
        Csr<double> As = A; for (auto &v : As.val) v *= s;
        auto Ascrs = to_crs<double>(As);
        RtAmg amg2(*Ascrs, prm);
        Mat B2 = extract_operator(amg2, n);
        for (ptrdiff_t j = 0; j < n; ++j) for (ptrdiff_t i = 0; i < n; ++i) {
            double a = s * B2(i, j), b = B(i, j);
            if (std::abs(a) < 1e-290 && std::abs(b) < 1e-290) continue; // underflow range: products flush to zero / denormals differently
            VF_REQUIRE(std::memcmp(&a, &b, sizeof(double)) == 0 || (a == 0 && b == 0), "scaling: 2^" << kexp << " * B'(" << i << "," << j << ") = " << a << " but B = " << b << " (difference " << a - b << ")");
        }
        c.label("scaling-checked");
    }

    // ---- positivity and contraction.  Asserted last: a case inside a known-finding region is reported as excluded by
    // the framework, and an excluded case cannot fail any more, so every other clause has to be decided before c.known().
    if (cfg.symmetric_smoother()) {
        if (fagg_region) {
            c.label(rho < 1 ? "F-agg-region:rho<1" : "F-agg-region:rho>=1");
            if (c.known("F-agg")) return;
        }
        // Known finding F-smoother-coarse (see c02_common.hpp): the smoother alone diverges on a coarse-level operator
        if (cfg.relax != GS && li.levels >= 2) {
            int lvl = -1; double srho = worst_coarse_smoother_rho(*amg, &lvl);
            c.label(bucket(srho, {0.5, 0.9, 1.0}, "coarse-smoother-rho"));
            if (srho >= 1.0) { c.desc << " | smoother diverges on level " << lvl << ": rho(I - N A_l) = " << srho; if (c.known("F-smoother-coarse")) return; }
        }
        if (cfg.npre == cfg.npost) VF_REQUIRE(bmin > 0, "B not positive definite: lambda_min(sym B) = " << bmin << " (lambda_max " << bmax << ")");
        VF_REQUIRE(rho < 1.0 - 1e-10, "no contraction: rho(I - B A) = " << std::setprecision(12) << rho << " with " << li.levels << " levels");
    }
    // the scaling clause was skipped above for F-rs-abseps (it is run when VF_INCLUDE_KNOWN=1); count the case as excluded
    if (rs_abs && c.known("F-rs-abseps")) return;
}

static std::vector<Prop> props() {
    return {
        Prop("cycle_operator", prop_cycle, 4000, 40000, 100, 2, {1}, 4, 16),
    };
}
static std::vector<Enum> enums() { return {}; }

VF_MAIN(props(), enums())
