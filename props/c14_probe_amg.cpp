// C14 (e) compile probe: amg<...>::params::get(ptree, path) (amg has no get_params(); its public prm member is exported) must instantiate.
#define C14_NO_RUNTIME_PRECOND
#define C14_NO_COMPOSITES
#include "c14_check.hpp"
#include "c14_equiv.hpp"
using namespace vf;
using namespace c14;
namespace c14 {
typedef amgcl::amg<B, co::ruge_stuben, re::gauss_seidel> AMG;
typedef amgcl::amg<B, co::aggregation, re::iluk> AMG2;
C14_AMG_DESC(AMG) C14_AMG_DESC(AMG2)
}
static void prop_params(Tape &t, Ctx &c) { if (t.b()) test_struct<AMG::params>(t, c, "amg<rs,gauss_seidel>"); else test_struct<AMG2::params>(t, c, "amg<aggr,iluk>"); }
static void prop_object(Tape &t, Ctx &c) {
    if (t.b()) object_export_case<AMG>(t, c, "amg<rs,gauss_seidel>::prm.get", NoFix(), [](const AMG &a, ptree &out) { a.prm.get(out, ""); });
    else object_export_case<AMG2>(t, c, "amg<aggr,iluk>::prm.get", NoFix(), [](const AMG2 &a, ptree &out) { a.prm.get(out, ""); });
}
static std::vector<Prop> props() { return {Prop("probe_amg_params", prop_params, 300, 3000, 100, 8, {1}, 1, 2), Prop("probe_amg_object", prop_object, 150, 1500, 100, 4, {1}, 1, 2)}; }
static std::vector<Enum> enums() { return {}; }
VF_MAIN(props(), enums())
