// C06 — every relaxation sweep equals its mathematical definition: the ILU family (ilu0, iluk, ilup, ilut) and the
// serial / level-scheduled sparse triangular solves behind them.
//
// Primary observation: public apply / apply_pre / apply_post of relaxation objects constructed directly.  The friend
// accessor ::amgcl_verif::access (guard AMGCL_VERIF) reads the stored factors L (unit lower, strict part), U (strict
// upper) and D (inverted pivots) of the serial solver; every use of the factors is tied to the public interface by
// checking that apply(e_j) are the columns of (L U)^-1.
// Oracles (dense, long double): (L U)_ij = a_ij on the admitted pattern (pattern of A; level-of-fill pattern that grows
// with k and contains the textbook sum-rule pattern; structural pattern of A^(k+1) for ILUP), exactness (L U = A) when
// nothing can be dropped (tridiagonal / arrow matrices, ILU(k >= n), ILUT with tau = 0 and room for all fill), BITWISE
// recovery of the factors of A := L D U built from small integers and powers of two (every operation exact in double),
// sweeps = x + damping (L U)^-1 (f - A x), fixed point, parallel vs serial triangular solve within c n u |U^-1||L^-1||r|.
#include "c06_common.hpp"   // includes the builtin backend and the value types first
#include <amgcl/relaxation/ilu0.hpp>
#include <amgcl/relaxation/iluk.hpp>
#include <amgcl/relaxation/ilup.hpp>
#include <amgcl/relaxation/ilut.hpp>

namespace amgcl_verif {
struct access {
    template <class R> static auto ilu(const R &r) -> decltype(r.ilu) { return r.ilu; }
    template <class R> static auto base(const R &r) -> decltype(r.base) { return r.base; }
    template <class S> static auto L(const S &s) -> decltype(s.L) { return s.L; }
    template <class S> static auto U(const S &s) -> decltype(s.U) { return s.U; }
    template <class S> static auto D(const S &s) -> decltype(s.D) { return s.D; }
};
} // namespace amgcl_verif

using namespace c06;
namespace ab = amgcl::backend;
namespace ar = amgcl::relaxation;

template <class V> using NV = ab::numa_vector<typename VT<V>::rhs>;
template <class V> NV<V> to_nv(const std::vector<typename VT<V>::rhs> &x) { NV<V> y(x.size()); for (size_t i = 0; i < x.size(); ++i) y[i] = x[i]; return y; }
template <class V> std::vector<typename VT<V>::rhs> from_nv(const NV<V> &x) { std::vector<typename VT<V>::rhs> y(x.size()); for (size_t i = 0; i < x.size(); ++i) y[i] = x[i]; return y; }

template <class V>
struct Sys {
    Csr<V> A; MatInfo mi;
    std::shared_ptr<ab::crs<V>> a;
    Dense<cld> Ad; Dense<ld> Aabs; Dense<int> P; // P: block pattern of A
    ptrdiff_t n = 0, N = 0;
    void finish() { a = to_crs<V>(A); Ad = expand(A); Aabs = absd(Ad); P = block_pattern(A); n = A.n; N = Ad.n; }
};

template <class V, class Relax>
std::vector<typename VT<V>::rhs> sweep(const Relax &R, const Sys<V> &s, bool pre, const std::vector<typename VT<V>::rhs> &f, const std::vector<typename VT<V>::rhs> &x) {
    NV<V> F = to_nv<V>(f), X = to_nv<V>(x), T(x.size());
    for (size_t i = 0; i < x.size(); ++i) T[i] = amgcl::math::constant<typename VT<V>::rhs>(777.0);
    if (pre) R.apply_pre(*s.a, F, X, T); else R.apply_post(*s.a, F, X, T);
    return from_nv<V>(X);
}
template <class V, class Relax>
std::vector<typename VT<V>::rhs> apply_of(const Relax &R, const Sys<V> &s, const std::vector<typename VT<V>::rhs> &f) {
    NV<V> F = to_nv<V>(f), X(f.size());
    for (size_t i = 0; i < f.size(); ++i) X[i] = amgcl::math::constant<typename VT<V>::rhs>(-555.0);
    R.apply(*s.a, F, X);
    return from_nv<V>(X);
}
template <class V, class Relax>
Dense<cld> apply_matrix(const Relax &R, const Sys<V> &s) {
    Dense<cld> M(s.N, s.N);
    for (ptrdiff_t j = 0; j < s.N; ++j) {
        std::vector<cld> c = expand<V>(apply_of<V>(R, s, unit_vector<V>(s.n, j)));
        for (ptrdiff_t i = 0; i < s.N; ++i) M(i, j) = c[i];
    }
    return M;
}

// ---------------------------------------------------------------- factors read through the accessor
template <class V>
struct Factors {
    Csr<V> L, U; std::vector<V> Dinv;        // as stored
    Dense<cld> Ld, Ud;                        // dense: Ld = I + L, Ud = D + U with D the (block) inverse of Dinv
    Dense<int> pat;                           // block pattern of L + diag + U
    Dense<cld> LU;                            // Ld * Ud
    Dense<ld> LUabs;                          // |Ld| * |Ud|
};
template <class V, class IluSolve>
Factors<V> read_factors(const IluSolve &is, ptrdiff_t n) {
    typedef amgcl_verif::access acc;
    Factors<V> F;
    auto L = acc::L(is); auto U = acc::U(is); auto D = acc::D(is);
    VF_REQUIRE(L && U && D, "serial triangular solver expected (solve.serial = true) but the factor matrices are not stored");
    require_wellformed(*L, "L factor", false, true); require_wellformed(*U, "U factor", false, true);
    F.L = from_crs(*L); F.U = from_crs(*U);
    F.Dinv.assign(D->data(), D->data() + n);
    const int B = VT<V>::B;
    ptrdiff_t N = n * B;
    F.Ld = expand(F.L); F.Ud = expand(F.U); F.pat = Dense<int>(n, n);
    for (ptrdiff_t i = 0; i < n; ++i) {
        for (ptrdiff_t j = F.L.ptr[i]; j < F.L.ptr[i + 1]; ++j) { VF_REQUIRE(F.L.col[j] < i, "L factor has an entry on or above the diagonal: (" << i << "," << F.L.col[j] << ")"); F.pat(i, F.L.col[j]) = 1; }
        for (ptrdiff_t j = F.U.ptr[i]; j < F.U.ptr[i + 1]; ++j) { VF_REQUIRE(F.U.col[j] > i, "U factor has an entry on or below the diagonal: (" << i << "," << F.U.col[j] << ")"); F.pat(i, F.U.col[j]) = 1; }
        F.pat(i, i) = 1;
        Dense<cld> blk(B, B), inv;
        for (int a = 0; a < B; ++a) for (int b = 0; b < B; ++b) blk(a, b) = VT<V>::at(F.Dinv[i], a, b);
        VF_REQUIRE(invert(blk, inv), "stored inverted pivot " << i << " is singular");
        for (int a = 0; a < B; ++a) for (int b = 0; b < B; ++b) F.Ud(i * B + a, i * B + b) = inv(a, b);
    }
    for (ptrdiff_t i = 0; i < N; ++i) F.Ld(i, i) += cld(1, 0);
    F.LU = matmul(F.Ld, F.Ud);
    F.LUabs = matmul(absd(F.Ld), absd(F.Ud));
    return F;
}

// (L U)_ij = a_ij on the block pattern `on` (entries of A outside its own pattern are zero)
template <class V>
void require_lu_matches(const Sys<V> &s, const Factors<V> &F, const Dense<int> &on, const std::string &what) {
    const int B = VT<V>::B; const ld c = 8 * (s.N + 8);
    double worst = 0;
    for (ptrdiff_t i = 0; i < s.n; ++i) for (ptrdiff_t j = 0; j < s.n; ++j) if (on(i, j))
        for (int a = 0; a < B; ++a) for (int b = 0; b < B; ++b) {
            ptrdiff_t p = i * B + a, q = j * B + b;
            ld e = std::abs(F.LU(p, q) - s.Ad(p, q)), sc = F.LUabs(p, q) + s.Aabs(p, q);
            if (sc > 0) worst = std::max(worst, static_cast<double>(e / (U * sc)));
            VF_REQUIRE(e <= c * U * sc, what << ": (L U)(" << p << "," << q << ") = " << static_cast<double>(F.LU(p, q).real()) << " but a = " << static_cast<double>(s.Ad(p, q).real())
                       << " on the admitted pattern (|diff| = " << static_cast<double>(e) << ", scale " << static_cast<double>(sc) << ")");
        }
    calib.see(what + " (LU-A)/(u scale)", worst);
}

// the public apply() is the solve with exactly these factors: (L U) apply(e_j) = e_j
template <class V>
Dense<cld> require_apply_is_lu_inverse(const Sys<V> &s, const Factors<V> &F, const Dense<cld> &Minv, const std::string &what) {
    Dense<cld> R = matmul(F.LU, Minv);
    Dense<ld> S = matmul(F.LUabs, absd(Minv));
    const ld c = 16 * (s.N + 8);
    for (ptrdiff_t i = 0; i < s.N; ++i) for (ptrdiff_t j = 0; j < s.N; ++j) {
        ld e = std::abs(R(i, j) - cld(i == j ? 1 : 0, 0));
        VF_REQUIRE(e <= c * U * (S(i, j) + 1), what << ": (L U) apply(e_" << j << ") differs from e_" << j << " in component " << i << " by " << static_cast<double>(e) << " (scale " << static_cast<double>(S(i, j)) << ")");
    }
    return R;
}

// reference solve with the dense factors by substitution (long double)
inline std::vector<cld> lu_solve(const Dense<cld> &Ld, const Dense<cld> &Ud, const std::vector<cld> &r, int B) {
    ptrdiff_t N = Ld.n, n = N / B;
    std::vector<cld> y = r;
    for (ptrdiff_t i = 0; i < N; ++i) { cld v = y[i]; for (ptrdiff_t j = 0; j < (i / B) * B; ++j) v -= Ld(i, j) * y[j]; y[i] = v; } // Ld is block unit lower: nothing inside the diagonal block
    std::vector<cld> x(N, cld());
    for (ptrdiff_t bi = n - 1; bi >= 0; --bi) {
        Dense<cld> blk(B, B), inv; std::vector<cld> acc(B);
        for (int a = 0; a < B; ++a) { cld v = y[bi * B + a]; for (ptrdiff_t j = (bi + 1) * B; j < N; ++j) v -= Ud(bi * B + a, j) * x[j]; acc[a] = v; for (int b = 0; b < B; ++b) blk(a, b) = Ud(bi * B + a, bi * B + b); }
        invert(blk, inv);
        for (int a = 0; a < B; ++a) { cld v = 0; for (int b = 0; b < B; ++b) v += inv(a, b) * acc[b]; x[bi * B + a] = v; }
    }
    return x;
}

// sweeps: x + damping (L U)^-1 (f - A x) from random data and at the exact solution
template <class V, class Relax>
void check_sweeps(Tape &t, const std::string &what, const Relax &R, const Sys<V> &s, const Factors<V> &F, const Dense<cld> &Minv, double damping) {
    typedef typename VT<V>::rhs Rh;
    const ld c = 16 * (s.N + 8);
    Dense<ld> Mabs = absd(Minv);
    auto ref = [&](const std::vector<cld> &f, const std::vector<cld> &x, std::vector<ld> &scale) {
        std::vector<cld> r = sub(f, matvec(s.Ad, x));
        std::vector<cld> d = lu_solve(F.Ld, F.Ud, r, VT<V>::B);
        std::vector<cld> y(x.size());
        for (size_t i = 0; i < x.size(); ++i) y[i] = x[i] + cld(damping, 0) * d[i];
        // |M^-1| (|f| + |A||x|) for the residual, |M^-1| |L||U| |d| for the two triangular solves
        std::vector<ld> tt = addv(addv(absv(f), mulabs(s.Aabs, absv(x))), mulabs(F.LUabs, absv(d)));
        scale = addv(absv(x), mulabs(Mabs, tt));
        ld fl = 0; for (auto v : scale) fl = std::max(fl, v);
        for (auto &v : scale) v = std::max(v, fl * 1e-3L);
        return y;
    };
    std::vector<Rh> f = gen_vector<V>(t, s.n), x = gen_vector<V>(t, s.n);
    std::vector<Rh> xs = gen_vector<V>(t, s.n, 2);
    std::vector<cld> xsd = expand<V>(xs);
    std::vector<Rh> fs = pack<V>(matvec(s.Ad, xsd));
    for (int w = 0; w < 2; ++w) {
        std::string tag = what + (w == 0 ? " apply_pre" : " apply_post");
        std::vector<ld> sc;
        std::vector<cld> y = ref(expand<V>(f), expand<V>(x), sc);
        std::vector<Rh> got = sweep<V>(R, s, w == 0, f, x);
        calib.see(tag, worst_ratio<V>(got, y, sc) / static_cast<double>(c));
        require_close<V>(got, y, sc, c, tag + " from random (f, x) vs x + damping (L U)^-1 (f - A x)");
        std::vector<cld> y2 = ref(expand<V>(fs), xsd, sc);
        std::vector<Rh> g2 = sweep<V>(R, s, w == 0, fs, xs);
        require_close<V>(g2, y2, sc, c, tag + " at the exact solution vs reference");
        require_close<V>(g2, xsd, sc, c + 4, tag + ": the exact solution is not a fixed point");
    }
}

// ---------------------------------------------------------------- symbolic references
static Dense<int> full_fill(const Dense<int> &P) { // pattern of the exact LU factors without pivoting
    Dense<int> F = P; ptrdiff_t n = P.n;
    for (ptrdiff_t k = 0; k < n; ++k) for (ptrdiff_t i = k + 1; i < n; ++i) if (F(i, k)) for (ptrdiff_t j = k + 1; j < n; ++j) if (F(k, j)) F(i, j) = 1;
    return F;
}
// textbook level-of-fill (Saad, Alg. 10.5): lev_ij = min(lev_ij, lev_ik + lev_kj + 1), entries with lev > K dropped
static Dense<int> level_pattern_sum(const Dense<int> &P, int K) {
    ptrdiff_t n = P.n; const int INF = 1 << 28;
    Dense<int> lev(n, n);
    for (ptrdiff_t i = 0; i < n; ++i) for (ptrdiff_t j = 0; j < n; ++j) lev(i, j) = P(i, j) ? 0 : INF;
    for (ptrdiff_t i = 1; i < n; ++i) {
        for (ptrdiff_t k = 0; k < i; ++k) if (lev(i, k) <= K)
            for (ptrdiff_t j = k + 1; j < n; ++j) if (lev(k, j) <= K) lev(i, j) = std::min(lev(i, j), lev(i, k) + lev(k, j) + 1);
        for (ptrdiff_t j = 0; j < n; ++j) if (lev(i, j) > K) lev(i, j) = INF;
    }
    Dense<int> R(n, n);
    for (ptrdiff_t i = 0; i < n; ++i) for (ptrdiff_t j = 0; j < n; ++j) R(i, j) = lev(i, j) <= K;
    return R;
}
// Delimits the known finding F-iluk-late-admission: amgcl's ILU(k) decides symbolically and numerically in ONE pass over a
// row; an update l_ik u_kj whose level max(lev_ik, lev_kj) + 1 exceeds k is dropped when position (i,j) does not exist yet,
// even if a LATER pivot k' > k of the same row admits (i,j) with a level <= k.  The position then belongs to the admitted
// pattern but misses a contribution, so (L U)_ij != a_ij there (a two-phase ILU(k) applies every update on the final
// pattern).  This simulation of the one-pass level bookkeeping returns true when such an event happens anywhere.
static bool iluk_late_admission(const Dense<int> &P, int K) {
    ptrdiff_t n = P.n; const int NONE = -1;
    Dense<int> lev(n, n);
    for (auto &v : lev.a) v = NONE;
    bool event = false;
    for (ptrdiff_t i = 0; i < n; ++i) {
        for (ptrdiff_t j = 0; j < n; ++j) if (P(i, j)) lev(i, j) = 0;
        std::vector<char> dropped(n, 0);
        for (ptrdiff_t k = 0; k < i; ++k) {
            if (lev(i, k) == NONE) continue;
            for (ptrdiff_t j = k + 1; j < n; ++j) {
                if (lev(k, j) == NONE) continue;
                int l = std::max(lev(i, k), lev(k, j)) + 1;
                if (lev(i, j) != NONE) lev(i, j) = std::min(lev(i, j), l);
                else if (l <= K) lev(i, j) = l;
                else dropped[j] = 1;
            }
        }
        for (ptrdiff_t j = 0; j < n; ++j) if (dropped[j] && lev(i, j) != NONE) event = true;
    }
    return event;
}
static bool subset(const Dense<int> &A, const Dense<int> &B, ptrdiff_t &bi, ptrdiff_t &bj) {
    for (ptrdiff_t i = 0; i < A.n; ++i) for (ptrdiff_t j = 0; j < A.m; ++j) if (A(i, j) && !B(i, j)) { bi = i; bj = j; return false; }
    return true;
}
static long count(const Dense<int> &A) { long c = 0; for (int v : A.a) c += v != 0; return c; }
static Dense<int> bool_power(const Dense<int> &P, int e) { // structural pattern of A^e
    Dense<int> R = P;
    for (int k = 1; k < e; ++k) { Dense<int> T(P.n, P.n); for (ptrdiff_t i = 0; i < P.n; ++i) for (ptrdiff_t l = 0; l < P.n; ++l) if (R(i, l)) for (ptrdiff_t j = 0; j < P.n; ++j) if (P(l, j)) T(i, j) = 1; R = T; }
    return R;
}

template <class V>
Sys<V> gen_sys(Tape &t, Ctx &ctx, int nmax, const std::string &what, int fam_lo = 0, int fam_hi = 9) {
    Sys<V> s;
    s.A = gen_matrix<V>(t, nmax / VT<V>::B, true, s.mi, fam_lo, fam_hi);
    s.finish();
    ctx.desc << what << " " << describe_matrix(s.A, s.mi) << " threads=" << ctx.threads;
    label_matrix(ctx, s.A, s.mi);
    return s;
}
template <class V> long fill_positions(const Sys<V> &s) { return count(full_fill(s.P)) - count(s.P); }

template <class Params> void set_serial(Params &p, bool serial) { p.solve.serial = serial; }

// ================================================================= ILU(0)
template <class V>
void prop_ilu0(Tape &t, Ctx &ctx) {
    typedef ab::builtin<V> B;
    Sys<V> s = gen_sys<V>(t, ctx, 48, "ilu0");
    typename ar::ilu0<B>::params prm; prm.damping = t.chance(1, 2) ? 1.0 : t.uni(0.3, 1.5); set_serial(prm, true);
    ctx.desc << " damping=" << prm.damping << " A=" << dump_small(s.A, 5);
    long fill = fill_positions(s);
    ctx.nontrivial = fill >= 1;
    ctx.label(fill ? "fill>=1" : "no-fill");
    ar::ilu0<B> R(*s.a, prm, typename B::params());
    Factors<V> F = read_factors<V>(*amgcl_verif::access::ilu(R), s.n);
    ptrdiff_t bi, bj;
    VF_REQUIRE(subset(F.pat, s.P, bi, bj), "ilu0: factor entry (" << bi << "," << bj << ") outside the pattern of A");
    require_lu_matches(s, F, s.P, "ilu0");
    Dense<cld> Minv = apply_matrix<V>(R, s);
    require_apply_is_lu_inverse(s, F, Minv, "ilu0");
    check_sweeps<V>(t, "ilu0", R, s, F, Minv, prm.damping);
    if (fill == 0) { // the exact factors fit: exact inverse
        Dense<int> all(s.n, s.n); for (auto &v : all.a) v = 1;
        require_lu_matches(s, F, all, "ilu0 without fill (L U = A everywhere)");
    }
}

// ================================================================= ILU(k)
template <class V>
void prop_iluk(Tape &t, Ctx &ctx) {
    typedef ab::builtin<V> B;
    Sys<V> s = gen_sys<V>(t, ctx, 40, "iluk");
    int kk = static_cast<int>(t.u(0, 4)); bool big = kk == 4; // 4 -> k >= n
    int k = big ? static_cast<int>(s.n + t.u(0, 2)) : kk;
    typename ar::iluk<B>::params prm; prm.k = k; prm.damping = t.chance(1, 2) ? 1.0 : t.uni(0.3, 1.5); set_serial(prm, true);
    ctx.desc << " k=" << k << " damping=" << prm.damping << " A=" << dump_small(s.A, 5);
    Dense<int> FF = full_fill(s.P);
    long fill = count(FF) - count(s.P);
    ctx.nontrivial = fill >= 1;
    ctx.label(fill ? "fill>=1" : "no-fill");
    ctx.label(big ? "k>=n" : "k=" + std::to_string(k));
    ar::iluk<B> R(*s.a, prm, typename B::params());
    Factors<V> F = read_factors<V>(*amgcl_verif::access::ilu(R), s.n);
    ptrdiff_t bi, bj;
    VF_REQUIRE(subset(s.P, F.pat, bi, bj), "iluk: entry (" << bi << "," << bj << ") of A missing from the factors");
    VF_REQUIRE(subset(F.pat, FF, bi, bj), "iluk: factor entry (" << bi << "," << bj << ") is not a fill position of the exact factorisation");
    Dense<int> LS = level_pattern_sum(s.P, k);
    VF_REQUIRE(subset(LS, F.pat, bi, bj), "iluk(k=" << k << "): position (" << bi << "," << bj << ") has level of fill <= k (sum rule) but is missing from the factors");
    if (k <= 1) VF_REQUIRE(subset(F.pat, LS, bi, bj), "iluk(k=" << k << "): factor entry (" << bi << "," << bj << ") has level of fill > k");
    if (count(F.pat) > count(s.P)) ctx.label("admitted-fill");
    require_lu_matches(s, F, s.P, "iluk (positions of A)");
    Dense<cld> Minv = apply_matrix<V>(R, s);
    require_apply_is_lu_inverse(s, F, Minv, "iluk");
    check_sweeps<V>(t, "iluk", R, s, F, Minv, prm.damping);
    if (big) { // k >= n: nothing can be dropped, exact factorisation
        Dense<int> all(s.n, s.n); for (auto &v : all.a) v = 1;
        VF_REQUIRE(subset(FF, F.pat, bi, bj), "iluk(k>=n): fill position (" << bi << "," << bj << ") missing");
        require_lu_matches(s, F, all, "iluk(k>=n) (L U = A everywhere)");
        ctx.label("exact-factorisation");
    }
    if (!big) { // the admitted pattern grows with k
        typename ar::iluk<B>::params p2 = prm; p2.k = k + 1;
        ar::iluk<B> R2(*s.a, p2, typename B::params());
        Factors<V> F2 = read_factors<V>(*amgcl_verif::access::ilu(R2), s.n);
        VF_REQUIRE(subset(F.pat, F2.pat, bi, bj), "iluk: entry (" << bi << "," << bj << ") admitted for k=" << k << " but not for k=" << k + 1);
    }
    if (k == 0) { // ILU(k = 0) is ILU(0)
        typename ar::ilu0<B>::params p0; p0.damping = prm.damping; set_serial(p0, true);
        ar::ilu0<B> R0(*s.a, p0, typename B::params());
        Factors<V> F0 = read_factors<V>(*amgcl_verif::access::ilu(R0), s.n);
        // ilu0 removes entries that became exactly zero; compare values
        for (ptrdiff_t i = 0; i < s.N; ++i) for (ptrdiff_t j = 0; j < s.N; ++j) {
            VF_REQUIRE(std::abs(F.Ld(i, j) - F0.Ld(i, j)) <= 8 * (s.N + 8) * U * (F.LUabs(i, j) + std::abs(F0.Ld(i, j))) / std::max<ld>(std::abs(F0.Ud(j, j)), 1e-300L) + 0 * U,
                       "iluk(k=0) L(" << i << "," << j << ") = " << static_cast<double>(F.Ld(i, j).real()) << " differs from ilu0's " << static_cast<double>(F0.Ld(i, j).real()));
            VF_REQUIRE(std::abs(F.Ud(i, j) - F0.Ud(i, j)) <= 8 * (s.N + 8) * U * (F.LUabs(i, j) + std::abs(F0.Ud(i, j))),
                       "iluk(k=0) U(" << i << "," << j << ") = " << static_cast<double>(F.Ud(i, j).real()) << " differs from ilu0's " << static_cast<double>(F0.Ud(i, j).real()));
        }
        ctx.label("k=0-vs-ilu0");
    }
    // (L U)_ij = a_ij on every admitted position, fill included
    if (iluk_late_admission(s.P, k)) {
        ctx.label("iluk:late-admission");
        if (ctx.known("F-iluk-late-admission")) return;
    }
    require_lu_matches(s, F, F.pat, "iluk");
    if (!big && count(F.pat) == count(FF)) { // every fill position admitted: the exact factors fit
        Dense<int> all(s.n, s.n); for (auto &v : all.a) v = 1;
        require_lu_matches(s, F, all, "iluk with all fill admitted (L U = A everywhere)");
        ctx.label("exact-factorisation");
    }
}

// ================================================================= ILUP
static void prop_ilup(Tape &t, Ctx &ctx) {
    typedef double V; typedef ab::builtin<V> B;
    Sys<V> s = gen_sys<V>(t, ctx, 40, "ilup");
    int k = static_cast<int>(t.u(0, 3));
    ar::ilup<B>::params prm; prm.k = k; prm.damping = t.chance(1, 2) ? 1.0 : t.uni(0.3, 1.5); set_serial(prm, true);
    ctx.desc << " k=" << k << " damping=" << prm.damping << " A=" << dump_small(s.A, 5);
    Dense<int> PK = bool_power(s.P, k + 1), FF = full_fill(s.P);
    long fill = count(FF) - count(s.P);
    ctx.nontrivial = fill >= 1;
    ctx.label(fill ? "fill>=1" : "no-fill"); ctx.label("k=" + std::to_string(k));
    ar::ilup<B> R(*s.a, prm, B::params());
    auto base = amgcl_verif::access::base(R);
    Factors<V> F = read_factors<V>(*amgcl_verif::access::ilu(*base), s.n);
    ptrdiff_t bi, bj;
    VF_REQUIRE(subset(F.pat, PK, bi, bj), "ilup(k=" << k << "): factor entry (" << bi << "," << bj << ") outside the pattern of A^" << k + 1);
    if (count(F.pat) > count(s.P)) ctx.label("admitted-fill");
    // (L U)_ij = a_ij on the whole pattern of A^(k+1) (entries that are dropped because they are exactly zero still satisfy it)
    require_lu_matches(s, F, PK, "ilup");
    Dense<cld> Minv = apply_matrix<V>(R, s);
    require_apply_is_lu_inverse(s, F, Minv, "ilup");
    check_sweeps<V>(t, "ilup", R, s, F, Minv, prm.damping);
    if (subset(FF, PK, bi, bj)) { // the exact factors fit into the pattern of A^(k+1)
        Dense<int> all(s.n, s.n); for (auto &v : all.a) v = 1;
        require_lu_matches(s, F, all, "ilup with all fill inside pattern(A^(k+1)) (L U = A everywhere)");
        ctx.label("exact-factorisation");
    }
}

// ================================================================= ILUT
template <class V>
void prop_ilut(Tape &t, Ctx &ctx) {
    typedef ab::builtin<V> B;
    Sys<V> s = gen_sys<V>(t, ctx, 40, "ilut");
    bool nodrop = t.b();
    typename ar::ilut<B>::params prm; set_serial(prm, true);
    prm.damping = t.chance(1, 2) ? 1.0 : t.uni(0.3, 1.5);
    Dense<int> FF = full_fill(s.P);
    if (nodrop) {
        prm.tau = 0;
        int pm = static_cast<int>(t.u(0, 2)); // 0: default fill factor 2, 1: generous, 2: the smallest fill factor that still leaves room for all fill
        prm.p = pm == 0 ? 2.0 : static_cast<double>(s.n + 1);
        if (pm == 2) {
            double need = 1.0;
            for (ptrdiff_t i = 0; i < s.n; ++i) {
                int lenL = 0, lenU = 0, fl = 0, fu = 0;
                for (ptrdiff_t j = 0; j < s.n; ++j) { if (s.P(i, j)) { if (j < i) ++lenL; if (j > i) ++lenU; } if (FF(i, j)) { if (j < i) ++fl; if (j > i) ++fu; } }
                if (lenL) need = std::max(need, static_cast<double>(fl) / lenL);
                if (lenU) need = std::max(need, static_cast<double>(fu + 1) / lenU);
            }
            prm.p = need * (1 + 1e-9);
            ctx.label("ilut:tight-fill-factor");
        }
    } else { prm.tau = t.chance(1, 3) ? 1e-2 : t.logu(1e-4, 0.5); prm.p = t.chance(1, 3) ? 2.0 : t.uni(1.0, 4.0); }
    ctx.desc << " p=" << prm.p << " tau=" << prm.tau << " damping=" << prm.damping << " A=" << dump_small(s.A, 5);
    long fill = count(FF) - count(s.P);
    ctx.nontrivial = fill >= 1;
    ctx.label(fill ? "fill>=1" : "no-fill");
    // "nothing is dropped": tau = 0 and every row has room for all entries of the exact factors.
    // ilut keeps int(lenL p) entries in L and int(lenU p) entries in [diagonal + U] of a row (lenL/lenU: entries of A left/right of the diagonal)
    bool room = prm.tau == 0;
    for (ptrdiff_t i = 0; i < s.n && room; ++i) {
        int lenL = 0, lenU = 0, fl = 0, fu = 0;
        for (ptrdiff_t j = 0; j < s.n; ++j) { if (s.P(i, j)) { if (j < i) ++lenL; if (j > i) ++lenU; } if (FF(i, j)) { if (j < i) ++fl; if (j > i) ++fu; } }
        int lp = static_cast<int>(lenL * prm.p), up = static_cast<int>(lenU * prm.p);
        if (fl > lp) room = false;
        if (fu > 0 && fu + 1 > up) room = false;
    }
    ctx.label(room ? "ilut:nothing-dropped" : "ilut:dropping");
    ar::ilut<B> R(*s.a, prm, typename B::params());
    Factors<V> F = read_factors<V>(*amgcl_verif::access::ilu(R), s.n);
    ptrdiff_t bi, bj;
    VF_REQUIRE(subset(F.pat, FF, bi, bj), "ilut: factor entry (" << bi << "," << bj << ") is not a fill position of the exact factorisation");
    Dense<cld> Minv = apply_matrix<V>(R, s);
    require_apply_is_lu_inverse(s, F, Minv, "ilut");
    check_sweeps<V>(t, "ilut", R, s, F, Minv, prm.damping);
    if (room) {
        Dense<int> all(s.n, s.n); for (auto &v : all.a) v = 1;
        require_lu_matches(s, F, all, "ilut(tau=0, room for all fill) (L U = A everywhere)");
    }
}

// ================================================================= tridiagonal and arrow matrices: every ILU is the exact inverse
static void prop_special(Tape &t, Ctx &ctx) {
    typedef double V; typedef ab::builtin<V> B;
    Sys<V> s;
    bool arrow = t.b();
    int n = static_cast<int>(t.u(1, 40));
    int mode = static_cast<int>(t.u(0, 2));
    std::vector<std::map<ptrdiff_t, V>> rows(n);
    std::vector<double> sum(n, 0.0);
    auto put = [&](int i, int j) { if (i == j || i < 0 || j < 0 || i >= n || j >= n) return; V v = Gen<V>::off(t, mode); rows[i][j] = v; sum[i] += std::abs(v); };
    if (arrow) for (int i = 0; i + 1 < n; ++i) { put(i, n - 1); put(n - 1, i); }   // hub last: no fill
    else for (int i = 0; i + 1 < n; ++i) { put(i, i + 1); put(i + 1, i); }
    for (int i = 0; i < n; ++i) rows[i][i] = Gen<V>::dia(t, mode, sum[i], true);
    s.A = from_triplets<V>(n, n, rows); s.mi.family = arrow ? "arrow" : "tridiagonal"; s.mi.mode = mode; s.mi.n = n; s.mi.offdiag_rows = n > 1 ? n : 0;
    s.finish();
    int which = static_cast<int>(t.u(0, 3));
    const char *nm[] = {"ilu0", "iluk", "ilup", "ilut"};
    int k = static_cast<int>(t.u(0, 2));
    ctx.desc << nm[which] << " on " << describe_matrix(s.A, s.mi) << " k=" << k << " A=" << dump_small(s.A, 5);
    label_matrix(ctx, s.A, s.mi); ctx.label(std::string("relax:") + nm[which]);
    ctx.nontrivial = n >= 3;
    VF_REQUIRE(count(full_fill(s.P)) == count(s.P), "harness: the special family must have no fill");
    Dense<int> all(s.n, s.n); for (auto &v : all.a) v = 1;
    std::vector<VT<V>::rhs> x = gen_vector<V>(t, s.n, 2 + static_cast<int>(t.u(0, 1)));
    std::vector<cld> xd = expand<V>(x);
    std::vector<VT<V>::rhs> f = pack<V>(matvec(s.Ad, xd));
    auto finish = [&](const Factors<V> &F, const std::vector<VT<V>::rhs> &got) {
        require_lu_matches(s, F, all, std::string(nm[which]) + " on a matrix without fill (L U = A)");
        // apply(A x) = x
        Dense<cld> Ai; VF_REQUIRE(invert(s.Ad, Ai), "harness: singular matrix");
        std::vector<ld> sc = mulabs(absd(Ai), addv(mulabs(s.Aabs, absv(xd)), mulabs(F.LUabs, absv(xd))));
        require_close<V>(got, xd, sc, 16 * (s.N + 8), std::string(nm[which]) + ": apply(A x) != x although the exact factors fit the pattern");
    };
    switch (which) {
    case 0: { ar::ilu0<B>::params p; set_serial(p, true); ar::ilu0<B> R(*s.a, p, B::params()); finish(read_factors<V>(*amgcl_verif::access::ilu(R), s.n), apply_of<V>(R, s, f)); break; }
    case 1: { ar::iluk<B>::params p; p.k = k; set_serial(p, true); ar::iluk<B> R(*s.a, p, B::params()); finish(read_factors<V>(*amgcl_verif::access::ilu(R), s.n), apply_of<V>(R, s, f)); break; }
    case 2: { ar::ilup<B>::params p; p.k = k; set_serial(p, true); ar::ilup<B> R(*s.a, p, B::params()); finish(read_factors<V>(*amgcl_verif::access::ilu(*amgcl_verif::access::base(R)), s.n), apply_of<V>(R, s, f)); break; }
    default: { ar::ilut<B>::params p; p.p = t.chance(1, 2) ? 2.0 : 3.0; p.tau = t.chance(1, 2) ? 0.0 : 1e-12; set_serial(p, true); ar::ilut<B> R(*s.a, p, B::params()); finish(read_factors<V>(*amgcl_verif::access::ilu(R), s.n), apply_of<V>(R, s, f)); break; }
    }
}

// ================================================================= exact instantiation: A := L D U from small integers and powers of two
// L, U unit triangular with entries in {-2..2} on a band / arrow pattern, D = diag(+-2^e): every product, sum and division the
// factorisation and the triangular solves perform is exact in double, so factors and apply(e_j) must be recovered BITWISE.
static void prop_exact(Tape &t, Ctx &ctx) {
    typedef double V; typedef ab::builtin<V> B;
    int n = static_cast<int>(t.u(1, 12));
    int shape = static_cast<int>(t.u(0, 2)); // 0 tridiagonal, 1 band 2, 2 arrow (hub last)
    Dense<ld> Lh(n, n), Uh(n, n); std::vector<ld> dh(n);
    auto in_pattern = [&](int i, int j) { int a = std::max(i, j), b = std::min(i, j); if (shape == 2) return a == n - 1; return a - b <= (shape == 0 ? 1 : 2); };
    for (int i = 0; i < n; ++i) { Lh(i, i) = 1; Uh(i, i) = 1; dh[i] = std::ldexp(1.0L, static_cast<int>(t.u(0, 4)) - 2) * (t.chance(1, 4) ? -1 : 1); }
    for (int i = 0; i < n; ++i) for (int j = 0; j < i; ++j) if (in_pattern(i, j)) { Lh(i, j) = t.chance(1, 5) ? 0 : static_cast<ld>(t.u(-2, 2)); Uh(j, i) = t.chance(1, 5) ? 0 : static_cast<ld>(t.u(-2, 2)); }
    // A = L D U, stored on the union pattern (band of L + U is closed under the product for these shapes)
    Dense<ld> Ah(n, n);
    for (int i = 0; i < n; ++i) for (int j = 0; j < n; ++j) { ld v = 0; for (int k = 0; k <= std::min(i, j); ++k) v += Lh(i, k) * dh[k] * Uh(k, j); Ah(i, j) = v; }
    Sys<V> s;
    std::vector<std::map<ptrdiff_t, V>> rows(n);
    for (int i = 0; i < n; ++i) for (int j = 0; j < n; ++j) {
        bool structural = i == j || in_pattern(i, j) || (shape == 1 && std::abs(i - j) <= 2);
        if (structural) rows[i][j] = static_cast<double>(Ah(i, j)); else VF_REQUIRE(Ah(i, j) == 0, "harness: product leaves the pattern");
    }
    s.A = from_triplets<V>(n, n, rows); s.mi.family = shape == 0 ? "ldu-tridiagonal" : shape == 1 ? "ldu-band2" : "ldu-arrow"; s.mi.mode = 2; s.mi.n = n; s.mi.offdiag_rows = n > 1 ? n : 0;
    s.finish();
    int which = static_cast<int>(t.u(0, 3));
    const char *nm[] = {"ilu0", "iluk", "ilup", "ilut"};
    int k = static_cast<int>(t.u(0, 2));
    ctx.desc << nm[which] << " exact " << describe_matrix(s.A, s.mi) << " k=" << k << " A=" << dump_small(s.A, 6);
    label_matrix(ctx, s.A, s.mi); ctx.label(std::string("relax:") + nm[which]);
    ctx.nontrivial = n >= 3;
    // exact inverse (dyadic rationals): columns of U^-1 D^-1 L^-1 by substitution in long double (exact: all values are small dyadics)
    auto exact_col = [&](int j) {
        std::vector<ld> y(n, 0); y[j] = 1;
        for (int i = 0; i < n; ++i) { ld v = y[i]; for (int q = 0; q < i; ++q) v -= Lh(i, q) * y[q]; y[i] = v; }
        std::vector<ld> x(n, 0);
        for (int i = n - 1; i >= 0; --i) { ld v = y[i] / dh[i]; for (int q = i + 1; q < n; ++q) v -= Uh(i, q) * x[q]; x[i] = v; }
        return x;
    };
    auto finish = [&](const Factors<V> &F, const std::function<std::vector<double>(const std::vector<double> &)> &app) {
        for (int i = 0; i < n; ++i) for (int j = 0; j < n; ++j) {
            ld l = i == j ? 1 : (j < i ? Lh(i, j) : 0), u = j > i ? dh[i] * Uh(i, j) : (i == j ? dh[i] : 0);
            VF_REQUIRE(F.Ld(i, j) == cld(l, 0), nm[which] << ": L(" << i << "," << j << ") = " << static_cast<double>(F.Ld(i, j).real()) << " but the exact factor is " << static_cast<double>(l));
            VF_REQUIRE(F.Ud(i, j) == cld(u, 0), nm[which] << ": U(" << i << "," << j << ") = " << static_cast<double>(F.Ud(i, j).real()) << " but the exact factor is " << static_cast<double>(u));
        }
        for (int i = 0; i < n; ++i) VF_REQUIRE(static_cast<ld>(F.Dinv[i]) == 1 / dh[i], nm[which] << ": stored inverse pivot " << i << " = " << F.Dinv[i] << " expected " << static_cast<double>(1 / dh[i]));
        for (int j = 0; j < n; ++j) {
            std::vector<double> e(n, 0.0); e[j] = 1;
            std::vector<double> got = app(e); std::vector<ld> ex = exact_col(j);
            for (int i = 0; i < n; ++i) VF_REQUIRE(static_cast<ld>(got[i]) == ex[i], nm[which] << ": apply(e_" << j << ")[" << i << "] = " << got[i] << " but the exact inverse entry is " << static_cast<double>(ex[i]));
        }
    };
    switch (which) {
    case 0: { ar::ilu0<B>::params p; set_serial(p, true); ar::ilu0<B> R(*s.a, p, B::params()); finish(read_factors<V>(*amgcl_verif::access::ilu(R), s.n), [&](const std::vector<double> &e) { return apply_of<V>(R, s, e); }); break; }
    case 1: { ar::iluk<B>::params p; p.k = k; set_serial(p, true); ar::iluk<B> R(*s.a, p, B::params()); finish(read_factors<V>(*amgcl_verif::access::ilu(R), s.n), [&](const std::vector<double> &e) { return apply_of<V>(R, s, e); }); break; }
    case 2: { ar::ilup<B>::params p; p.k = k; set_serial(p, true); ar::ilup<B> R(*s.a, p, B::params()); finish(read_factors<V>(*amgcl_verif::access::ilu(*amgcl_verif::access::base(R)), s.n), [&](const std::vector<double> &e) { return apply_of<V>(R, s, e); }); break; }
    default: { ar::ilut<B>::params p; p.p = n + 1; p.tau = 0; set_serial(p, true); ar::ilut<B> R(*s.a, p, B::params()); finish(read_factors<V>(*amgcl_verif::access::ilu(R), s.n), [&](const std::vector<double> &e) { return apply_of<V>(R, s, e); }); break; }
    }
}

// ================================================================= level-scheduled (parallel) vs serial triangular solve
template <class V>
void prop_parallel(Tape &t, Ctx &ctx) {
    typedef ab::builtin<V> B; typedef typename VT<V>::rhs Rh;
    Sys<V> s = gen_sys<V>(t, ctx, 30, "ilu parallel-vs-serial solve");
    int which = static_cast<int>(t.u(0, 2)); // ilu0, iluk, ilut
    const char *nm[] = {"ilu0", "iluk", "ilut"};
    int k = static_cast<int>(t.u(0, 3));
    ctx.desc << " relax=" << nm[which] << " k=" << k << " A=" << dump_small(s.A, 5);
    ctx.label(std::string("relax:") + nm[which]);
    ctx.nontrivial = s.mi.offdiag_rows >= 2;
    std::vector<Rh> f = gen_vector<V>(t, s.n), x = gen_vector<V>(t, s.n);
    auto run = [&](auto &Rs, auto &Rp) {
        Factors<V> F = read_factors<V>(*amgcl_verif::access::ilu(Rs), s.n);
        Dense<cld> Li, Ui; VF_REQUIRE(invert(F.Ld, Li) && invert(F.Ud, Ui), "harness: singular factor");
        Dense<ld> La = absd(Li), Ua = absd(Ui);
        const ld c = 16 * (s.N + 8);
        // apply: |U^-1| (|U| |x'| + |L^-1| |L| ... ) -> use  |U^-1| |L^-1| |r| + |U^-1||U||x'|
        std::vector<Rh> a1 = apply_of<V>(Rs, s, f), a2 = apply_of<V>(Rp, s, f);
        std::vector<cld> ref = lu_solve(F.Ld, F.Ud, expand<V>(f), VT<V>::B);
        std::vector<ld> sc = addv(mulabs(Ua, mulabs(La, mulabs(absd(F.Ld), mulabs(La, absv(expand<V>(f)))))), mulabs(Ua, mulabs(absd(F.Ud), absv(ref))));
        ld fl = 0; for (auto v : sc) fl = std::max(fl, v);
        for (auto &v : sc) v = std::max(v, fl * 1e-3L);
        calib.see("parallel apply vs reference", worst_ratio<V>(a2, ref, sc) / static_cast<double>(c));
        require_close<V>(a1, ref, sc, c, std::string(nm[which]) + " serial solve vs dense substitution");
        require_close<V>(a2, ref, sc, c, std::string(nm[which]) + " level-scheduled solve (" + std::to_string(ctx.threads) + " threads) vs dense substitution");
        require_close<V>(a2, expand<V>(a1), sc, c, std::string(nm[which]) + " level-scheduled solve vs serial solve");
        // sweeps of the parallel object agree with the serial object's within the same bound
        for (int w = 0; w < 2; ++w) {
            std::vector<Rh> s1 = sweep<V>(Rs, s, w == 0, f, x), s2 = sweep<V>(Rp, s, w == 0, f, x);
            std::vector<cld> r = sub(expand<V>(f), matvec(s.Ad, expand<V>(x)));
            std::vector<cld> d = lu_solve(F.Ld, F.Ud, r, VT<V>::B);
            std::vector<ld> tt = addv(addv(absv(expand<V>(f)), mulabs(s.Aabs, absv(expand<V>(x)))), mulabs(F.LUabs, absv(d)));
            std::vector<ld> s3 = addv(absv(expand<V>(x)), mulabs(Ua, mulabs(La, tt)));
            ld f3 = 0; for (auto v : s3) f3 = std::max(f3, v);
            for (auto &v : s3) v = std::max(v, f3 * 1e-3L);
            require_close<V>(s2, expand<V>(s1), s3, c, std::string(nm[which]) + (w == 0 ? " apply_pre" : " apply_post") + ": level-scheduled vs serial");
        }
    };
    switch (which) {
    case 0: { typename ar::ilu0<B>::params p, q; set_serial(p, true); set_serial(q, false); ar::ilu0<B> Rs(*s.a, p, typename B::params()), Rp(*s.a, q, typename B::params()); run(Rs, Rp); break; }
    case 1: { typename ar::iluk<B>::params p, q; p.k = q.k = k; set_serial(p, true); set_serial(q, false); ar::iluk<B> Rs(*s.a, p, typename B::params()), Rp(*s.a, q, typename B::params()); run(Rs, Rp); break; }
    default: { typename ar::ilut<B>::params p, q; set_serial(p, true); set_serial(q, false); ar::ilut<B> Rs(*s.a, p, typename B::params()), Rp(*s.a, q, typename B::params()); run(Rs, Rp); break; }
    }
}

static std::vector<Prop> props() {
    return {
        Prop("ilu0_double", prop_ilu0<double>, 250, 2500, 100, 30, {1}, 1, 4),
        Prop("ilu0_complex", prop_ilu0<cplx>, 120, 1200, 100, 40, {1}, 1, 2),
        Prop("ilu0_blk2", prop_ilu0<blk2>, 120, 1200, 100, 60, {1}, 1, 2),
        Prop("iluk_double", prop_iluk<double>, 300, 3000, 100, 30, {1}, 1, 4),
        Prop("iluk_blk2", prop_iluk<blk2>, 100, 1000, 100, 60, {1}, 1, 2),
        Prop("ilup_double", prop_ilup, 250, 2500, 100, 30, {1}, 1, 4),
        Prop("ilut_double", prop_ilut<double>, 250, 2500, 100, 30, {1}, 1, 4),
        Prop("ilut_complex", prop_ilut<cplx>, 100, 1000, 100, 40, {1}, 1, 2),
        Prop("ilu_special", prop_special, 300, 3000, 100, 20, {1}, 1, 2),
        Prop("ilu_exact", prop_exact, 400, 4000, 100, 20, {1}, 1, 2),
        Prop("ilu_parallel_double", prop_parallel<double>, 120, 1500, 100, 30, {1, 4, 5, 8}, 1, 2),
        Prop("ilu_parallel_blk2", prop_parallel<blk2>, 60, 600, 100, 60, {4}, 1, 1),
    };
}
static std::vector<Enum> enums() { return {}; }
VF_MAIN(props(), enums())
