// C02 for block value types — the AMG cycle on builtin<static_matrix<double,2,2>> is a fixed linear, symmetric positive
// definite, contracting operator.
//
// Matrix families (all SPD, expanded to the scalar 2n x 2n matrix for the dense oracles):
//   reblocked   a scalar irreducibly diagonally dominant M-matrix (vf::gen_graph + vf::gen_mmat, 2n unknowns) stored with
//               2x2 block values, the way amgcl is used for systems: the off-diagonal blocks are general 2x2 matrices,
//               A_JI = A_IJ^T, and neither symmetric nor commuting
//   blocklap    block graph Laplacian  A_ij = -C_ij, A_ii = sum_j C_ij + sigma_i S_i  with random SPD, mutually
//               non-commuting 2x2 blocks C_ij = w_ij Q(theta_ij) diag(1, lambda_ij) Q(theta_ij)^T and SPD shifts
//   kron        A (x) S with one SPD 2x2 S (commuting blocks; the family the pinned suite covers)
// B is extracted through the 2n scalar unit vectors.  Clauses, tolerances and known-finding regions as in c02_cycle.cpp;
// ruge_stuben and spai1 do not support block values (coarsening_is_supported / relaxation_is_supported) and are left out.
#include <iomanip>
#include <amgcl/value_type/static_matrix.hpp>
#include "c02_common.hpp"

using namespace vf;
using namespace c02;

typedef amgcl::static_matrix<double, 2, 2> blk;
typedef amgcl::static_matrix<double, 2, 1> bvec;
typedef amgcl::backend::builtin<blk> BBackend;
typedef amgcl::amg<BBackend, amgcl::runtime::coarsening::wrapper, amgcl::runtime::relaxation::wrapper> BAmg;

static Csr<double> expand(const Csr<blk> &A) {
    std::vector<std::map<ptrdiff_t, double>> rows(A.n * 2);
    for (ptrdiff_t i = 0; i < A.n; ++i) for (ptrdiff_t j = A.ptr[i]; j < A.ptr[i + 1]; ++j)
        for (int a = 0; a < 2; ++a) for (int b = 0; b < 2; ++b) rows[i * 2 + a][A.col[j] * 2 + b] += A.val[j](a, b);
    return from_triplets<double>(A.n * 2, A.n * 2, rows);
}
static std::vector<bvec> pack(const std::vector<double> &x) { std::vector<bvec> y(x.size() / 2); for (size_t i = 0; i < y.size(); ++i) { y[i](0) = x[2 * i]; y[i](1) = x[2 * i + 1]; } return y; }
static std::vector<double> unpack(const std::vector<bvec> &x) { std::vector<double> y(x.size() * 2); for (size_t i = 0; i < x.size(); ++i) { y[2 * i] = x[i](0); y[2 * i + 1] = x[i](1); } return y; }

template <class P> static Mat extract_block(const P &prec, ptrdiff_t n) {
    Mat B(2 * n, 2 * n); std::vector<bvec> e(n), x(n);
    for (ptrdiff_t i = 0; i < n; ++i) { e[i](0) = 0; e[i](1) = 0; }
    for (ptrdiff_t j = 0; j < 2 * n; ++j) {
        e[j / 2](j % 2) = 1.0;
        for (ptrdiff_t i = 0; i < n; ++i) { x[i](0) = (i % 3) - 7.5; x[i](1) = 1e300; } // apply() must overwrite
        prec.apply(e, x);
        e[j / 2](j % 2) = 0.0;
        for (ptrdiff_t i = 0; i < n; ++i) { B(2 * i, j) = x[i](0); B(2 * i + 1, j) = x[i](1); }
    }
    return B;
}

// F-smoother-coarse for block levels: largest rho(I - N_l A_l) over the levels below the finest (see c02_common.hpp); *fine
// receives the value of the finest level (reported only: there the premise of the property holds).
static double worst_coarse_smoother_rho_block(const BAmg &a, int *which, double *fine) {
    double worst = 0; int idx = 0;
    amgcl_verif::access::for_level_objects(a, [&](const auto &l) {
        int me = idx++;
        if (!l.relax || !l.A) return;
        const ptrdiff_t m = static_cast<ptrdiff_t>(l.rows());
        if (m == 0) return;
        amgcl::backend::numa_vector<bvec> e(m), x(m), tmp(m);
        for (ptrdiff_t i = 0; i < m; ++i) { e[i](0) = 0; e[i](1) = 0; }
        Mat N(2 * m, 2 * m), Al = Mat::Zero(2 * m, 2 * m);
        for (ptrdiff_t j = 0; j < 2 * m; ++j) {
            e[j / 2](j % 2) = 1;
            for (ptrdiff_t i = 0; i < m; ++i) { x[i](0) = 0; x[i](1) = 0; tmp[i](0) = 0; tmp[i](1) = 0; }
            l.relax->apply_pre(*l.A, e, x, tmp);
            e[j / 2](j % 2) = 0;
            for (ptrdiff_t i = 0; i < m; ++i) { N(2 * i, j) = x[i](0); N(2 * i + 1, j) = x[i](1); }
        }
        for (ptrdiff_t i = 0; i < m; ++i) for (ptrdiff_t j = l.A->ptr[i]; j < l.A->ptr[i + 1]; ++j)
            for (int p = 0; p < 2; ++p) for (int q = 0; q < 2; ++q) Al(2 * i + p, 2 * l.A->col[j] + q) += l.A->val[j](p, q);
        Mat E = Mat::Identity(2 * m, 2 * m) - N * Al;
        double r = 0;
        if (!all_finite(E)) r = 1e300;
        else { Eigen::EigenSolver<Mat> es(E, false); for (ptrdiff_t i = 0; i < 2 * m; ++i) r = std::max(r, std::abs(es.eigenvalues()[i])); }
        if (me == 0) { if (fine) *fine = r; return; }
        if (r > worst) { worst = r; if (which) *which = me; }
    });
    return worst;
}

// Known finding F-sa-block-singular-diagonal.  smoothed_aggregation and smoothed_aggr_emin lump the weak connections of a
// row into its diagonal ("filtered diagonal") and invert it; the only guard is math::is_zero(dia).  For scalar values a
// row without strong connections and without a diagonal shift gives dia == 0 and is guarded.  For block values the
// filtered diagonal block of such a row is SINGULAR BUT NOT ZERO (its rows sum to the zero vector: D (1,1)^T = 0), the guard
// does not fire and inverse(D) is inf/NaN or garbage.  Returns a description of the first such row (relative |det| <=
// 1e-12), using the library's own public aggregation routine; eps_strong is halved after every level as in the coarsening.
static std::string block_filtered_diag_singular(const BAmg &a, double eps_strong) {
    std::string why; float eps = static_cast<float>(eps_strong); int lvl = 0;
    amgcl_verif::access::for_levels(a, [&](size_t, const amgcl::backend::crs<blk> *A, bool, bool, bool hasP) {
        if (!A || !hasP || !why.empty()) { ++lvl; return; }
        for (size_t j = 0; j < A->nnz; ++j) for (int q = 0; q < 4; ++q) if (!std::isfinite(A->val[j](q))) { ++lvl; return; }
        amgcl::coarsening::plain_aggregates::params ap; ap.eps_strong = eps;
        std::vector<char> strong;
        try { amgcl::coarsening::plain_aggregates ag(*A, ap); strong = ag.strong_connection; } catch (const amgcl::error::empty_level &) { strong.assign(A->nnz, 0); }
        for (size_t i = 0; i < A->nrows && why.empty(); ++i) {
            double D[4] = {0, 0, 0, 0};
            for (ptrdiff_t j = A->ptr[i]; j < A->ptr[i + 1]; ++j) if (static_cast<size_t>(A->col[j]) == i || !strong[j]) for (int q = 0; q < 4; ++q) D[q] += A->val[j](q);
            double det = D[0] * D[3] - D[1] * D[2], fro2 = D[0] * D[0] + D[1] * D[1] + D[2] * D[2] + D[3] * D[3];
            if (fro2 > 0 && std::abs(det) <= 1e-12 * fro2) { std::ostringstream os; os << "level " << lvl << ": filtered diagonal block of row " << i << " = [" << D[0] << " " << D[1] << "; " << D[2] << " " << D[3] << "] is singular but not zero"; why = os.str(); }
        }
        eps *= 0.5f; ++lvl;
    });
    return why;
}

// Block version of c02::emin_degenerate(.., residue_only = true) (known finding F-emin-residue): an aggregate whose column of
// A_f P_tent consists of non-zero rounding residues, ||.||_F <= 1e-12 max ||A_ii||_F; omega is then residue / residue.
static std::string emin_residue_block(const BAmg &a, double eps_strong) {
    std::string why; float eps = static_cast<float>(eps_strong); int lvl = 0;
    auto fro = [](const blk &b) { return std::sqrt(b(0, 0) * b(0, 0) + b(0, 1) * b(0, 1) + b(1, 0) * b(1, 0) + b(1, 1) * b(1, 1)); };
    amgcl_verif::access::for_levels(a, [&](size_t, const amgcl::backend::crs<blk> *A, bool, bool, bool hasP) {
        if (!A || !hasP || !why.empty()) { ++lvl; return; }
        for (size_t j = 0; j < A->nnz; ++j) for (int q = 0; q < 4; ++q) if (!std::isfinite(A->val[j](q))) { ++lvl; return; }
        amgcl::coarsening::plain_aggregates::params ap; ap.eps_strong = eps;
        size_t nc = 0; std::vector<ptrdiff_t> id; std::vector<char> strong;
        try { amgcl::coarsening::plain_aggregates ag(*A, ap); nc = ag.count; id = ag.id; strong = ag.strong_connection; } catch (const amgcl::error::empty_level &) { ++lvl; return; }
        std::vector<double> colmax(nc, 0.0), diamax(nc, 0.0);
        for (size_t i = 0; i < A->nrows; ++i) {
            blk D; D(0, 0) = D(0, 1) = D(1, 0) = D(1, 1) = 0; double aii = 0;
            for (ptrdiff_t j = A->ptr[i]; j < A->ptr[i + 1]; ++j) { if (static_cast<size_t>(A->col[j]) == i) aii = fro(A->val[j]); if (static_cast<size_t>(A->col[j]) == i || !strong[j]) D += A->val[j]; }
            if (id[i] >= 0) diamax[id[i]] = std::max(diamax[id[i]], aii);
            std::vector<std::pair<ptrdiff_t, blk>> acc;
            for (ptrdiff_t j = A->ptr[i]; j < A->ptr[i + 1]; ++j) {
                size_t cc = static_cast<size_t>(A->col[j]); blk v;
                if (cc == i) v = D; else if (strong[j]) v = A->val[j]; else continue;
                if (id[cc] < 0) continue;
                bool found = false;
                for (auto &kv : acc) if (kv.first == id[cc]) { kv.second += v; found = true; }
                if (!found) acc.push_back(std::make_pair(id[cc], v));
            }
            for (auto &kv : acc) colmax[kv.first] = std::max(colmax[kv.first], fro(kv.second));
        }
        for (size_t cidx = 0; cidx < nc && why.empty(); ++cidx)
            if (colmax[cidx] > 0 && colmax[cidx] <= 1e-12 * diamax[cidx]) { std::ostringstream os; os << "level " << lvl << ": aggregate " << cidx << " is an isolated zero-row-sum block of the filtered matrix, max||A_f P_tent(:,c)||_F = " << colmax[cidx]; why = os.str(); }
        eps *= 0.5f; ++lvl;
    });
    return why;
}

static const int block_coars[] = {SA, AGG, EMIN};
static const int block_relax[] = {SPAI0, JACOBI, GS, ILU0, ILUK, ILUP, CHEB, ILUT}; // first 7: the property's symmetric list

static void prop_cycle_block(Tape &t, Ctx &c) {
    // ---- matrix
    int fam = static_cast<int>(t.u(0, 2)); // 0 reblocked, 1 blocklap, 2 kron
    GenMat gm = fam == 0 ? gen_mmat_case(t, {0, 1, 1, 2, 2, 3}, {2, 12, 40, 80}, {12, 40, 80, 140}, 100.0, true)
                         : gen_mmat_case(t, {0, 1, 1, 2, 2, 3}, {1, 6, 20, 40}, {6, 20, 40, 70}, 100.0, true);
    Csr<blk> A; std::string kind;
    Tape sub = expand_tape(t, 64 + 4 * static_cast<size_t>(gm.A.nnz()));
    if (fam == 0) {
        kind = "reblocked";
        Csr<double> S = gm.A;
        if (S.n % 2) { // odd size: append one unknown coupled to the last one with weight 1 and shifted by 1 (keeps the class)
            std::vector<std::map<ptrdiff_t, double>> r(S.n + 1);
            for (ptrdiff_t i = 0; i < S.n; ++i) for (ptrdiff_t j = S.ptr[i]; j < S.ptr[i + 1]; ++j) r[i][S.col[j]] += S.val[j];
            r[S.n - 1][S.n - 1] += 1.0; r[S.n - 1][S.n] = -1.0; r[S.n][S.n - 1] = -1.0; r[S.n][S.n] = 2.0;
            S = from_triplets<double>(S.n + 1, S.n + 1, r);
        }
        const ptrdiff_t nb = S.n / 2;
        std::vector<std::map<ptrdiff_t, blk>> rows(nb);
        for (ptrdiff_t i = 0; i < S.n; ++i) for (ptrdiff_t j = S.ptr[i]; j < S.ptr[i + 1]; ++j) {
            ptrdiff_t I = i / 2, J = S.col[j] / 2;
            auto it = rows[I].find(J);
            if (it == rows[I].end()) { blk z; z(0, 0) = z(0, 1) = z(1, 0) = z(1, 1) = 0; it = rows[I].insert(std::make_pair(J, z)).first; }
            it->second(static_cast<int>(i % 2), static_cast<int>(S.col[j] % 2)) += S.val[j];
        }
        A = from_triplets<blk>(nb, nb, rows);
    } else {
        kind = fam == 1 ? "blocklap" : "kron";
        const Csr<double> &S = gm.A; const ptrdiff_t nb = S.n;
        double off = sub.uni(-0.6, 0.6), d2 = sub.logu(0.5, 2.0);
        // per-edge SPD blocks, symmetric in (i,j): derived from the unordered pair
        auto Cedge = [&](ptrdiff_t i, ptrdiff_t j, double w) {
            blk C;
            if (fam == 2) { C(0, 0) = w; C(0, 1) = w * off; C(1, 0) = w * off; C(1, 1) = w * d2; return C; }
            ptrdiff_t lo = std::min(i, j), hi = std::max(i, j);
            uint64_t h = static_cast<uint64_t>(lo) * 0x9E3779B97F4A7C15ULL ^ (static_cast<uint64_t>(hi) + 0x7F4A7C15ULL) * 0xBF58476D1CE4E5B9ULL; h ^= h >> 29; h *= 0x94D049BB133111EBULL; h ^= h >> 32;
            double th = 3.14159265358979 * static_cast<double>(h & 0xffff) / 65536.0, lam = 0.2 + 0.8 * static_cast<double>((h >> 16) & 0xffff) / 65536.0;
            double cs = std::cos(th), sn = std::sin(th);
            C(0, 0) = w * (cs * cs + lam * sn * sn); C(0, 1) = w * (1 - lam) * cs * sn; C(1, 0) = C(0, 1); C(1, 1) = w * (sn * sn + lam * cs * cs);
            return C;
        };
        std::vector<std::map<ptrdiff_t, blk>> rows(nb);
        for (ptrdiff_t i = 0; i < nb; ++i) {
            blk D; D(0, 0) = D(0, 1) = D(1, 0) = D(1, 1) = 0; double rowsum = 0;
            for (ptrdiff_t j = S.ptr[i]; j < S.ptr[i + 1]; ++j) {
                rowsum += S.val[j];
                if (S.col[j] == i) continue;
                blk C = Cedge(i, S.col[j], -S.val[j]);
                rows[i][S.col[j]] = -1.0 * C; D += C;
            }
            if (rowsum > 1e-12) { blk Sh = Cedge(i, i + 1000003, rowsum); D += Sh; } // the scalar matrix' diagonal shift as an SPD block
            rows[i][i] = D;
        }
        A = from_triplets<blk>(nb, nb, rows);
    }
    t.mix(sub.h);
    const ptrdiff_t nb = A.n, n = 2 * nb;
    Csr<double> As = expand(A);

    // ---- configuration
    AmgCfg cfg;
    cfg.coars = block_coars[t.pick(3)];
    cfg.relax = block_relax[t.pick(8)];
    int ce_mode = static_cast<int>(t.u(0, 7));
    cfg.coarse_enough = ce_mode == 0 ? static_cast<unsigned>(nb) : ce_mode <= 5 ? static_cast<unsigned>(t.u(1, 6)) : static_cast<unsigned>(t.u(1, std::max<ptrdiff_t>(1, nb / 3)));
    if (t.chance(1, 4)) cfg.max_levels = static_cast<unsigned>(t.u(1, 4));
    gen_component_params(t, cfg, true);
    // smoothed aggregation with relax = 1.5 damps the prolongator with omega = 1 EXACTLY: the entry of a scalar unknown that
    // is decoupled from the rest (1 - a_ii/a_ii) becomes 0; inside a coupled block that leaves a zero column in P, a singular
    // coarse block and a NaN hierarchy (no guard).  That parameter edge is reported, not generated here: 1.25 instead.
    if (cfg.sa_relax == 1.5) cfg.sa_relax = 1.25;
    std::vector<double> f = seeded_vec(t, n), gq = seeded_vec(t, n);
    double alpha = t.b() ? static_cast<double>(t.u(-3, 3)) : t.slogu(1e-3, 1e3);
    double beta = t.b() ? static_cast<double>(t.u(-3, 3)) : t.slogu(1e-3, 1e3);
    int kexp = static_cast<int>(t.u(0, 40)) - 20; if (kexp == 0) kexp = 1;
    // npre / npost = 0 (V(0,nu), W(0,nu), V(nu,0) cycles; npre + npost >= 1).  Read last so that older saved tapes keep their meaning.
    { int z = static_cast<int>(t.u(0, 7)); if (z >= 4 && z <= 6) cfg.npre = 0; else if (z == 7) cfg.npost = 0; }

    c.desc << "cycle<block2x2> " << kind << " " << gm.g.family << " blocks=" << nb << " nnz=" << A.nnz() << " contrast=" << gm.mi.contrast << " aniso=" << gm.mi.aniso
           << " | " << cfg.str() << " | alpha=" << alpha << " beta=" << beta << " k=" << kexp;

    ptree prm; cfg.put_amg(prm, "");
    auto Acrs = to_crs<blk>(A);
    std::unique_ptr<BAmg> amg;
    try { amg.reset(new BAmg(*Acrs, prm)); }
    catch (const std::runtime_error &e) {
        // emin on general blocks (F-emin-block-adjoint, below) can produce a singular coarsest matrix: the direct solver refuses it
        if (cfg.coars == EMIN && fam != 2) { c.label(std::string("setup-threw:") + e.what()); if (c.known("F-emin-block-adjoint")) return; }
        throw;
    }
    const size_t levels = amgcl_verif::access::nlevels(*amg);
    bool direct = false; amgcl_verif::access::for_levels(*amg, [&](size_t, const auto *, bool solve, bool, bool) { if (solve) direct = true; });

    c.label("kind:" + kind);
    c.label(std::string("coars:") + coars_name[cfg.coars]); c.label(std::string("relax:") + relax_name[cfg.relax]);
    c.label("levels=" + std::to_string(std::min<size_t>(levels, 6)));
    c.label(cfg.ncycle == 1 ? "V-cycle" : "W-cycle"); c.label(cfg.npre == cfg.npost ? "npre==npost" : "npre!=npost"); if (cfg.npre == 0) c.label("npre=0,ncycle=" + std::to_string(cfg.ncycle) + ",pre_cycles=" + std::to_string(cfg.pre_cycles)); if (cfg.npost == 0) c.label("npost=0");
    c.nontrivial = levels >= 2;

    if (cfg.coars != AGG) {
        std::string why = block_filtered_diag_singular(*amg, cfg.eps_strong);
        if (!why.empty()) { c.label("singular-filtered-diagonal-block"); c.desc << " | F-sa-block-singular-diagonal: " << why; if (c.known("F-sa-block-singular-diagonal")) return; }
    }

    if (cfg.coars == EMIN) {
        std::string res = emin_residue_block(*amg, cfg.eps_strong);
        if (!res.empty()) { c.label("emin:residue-aggregate"); c.desc << " | F-emin-residue: " << res; if (c.known("F-emin-residue")) return; }
    }
    // Known finding F-emin-block-adjoint.  smoothed_aggr_emin forms its column "scalar products" (A P, A D^-1 A P) as plain
    // products of block values and builds R = R_tent - Omega R_tent A D^-1 with the same Omega and D^-1 as P = P_tent - D^-1 A P_tent Omega.
    // For block values that do not commute / are not symmetric (Omega^T != Omega, D^-T != D^-1: weak blocks A_IJ are lumped into
    // D) R is not the adjoint of P, so the cycle is not symmetric (max|B - B^T| = O(1e-2 .. 1) max|B|) and the variational
    // argument for positivity / contraction does not apply.  Region: emin, >= 2 levels, non-commuting block values
    // (families reblocked, blocklap).
    const bool emin_adjoint_region = cfg.coars == EMIN && levels >= 2 && fam != 2;
    // The block-valued quotient omega = (AP,ADAP)/(ADAP,ADAP) is then not a ratio of norms either: with general off-diagonal
    // blocks (reblocked) the transfer operators are arbitrary, huge and mutually cancelling (linearity off by 240 x the
    // rounding bound) or NaN, with symmetric non-commuting blocks (blocklap) a NaN hierarchy was seen once in 2e5 cases.
    // Nothing is asserted inside the region.
    if (emin_adjoint_region) { c.label("emin:non-commuting-blocks"); if (c.known("F-emin-block-adjoint")) return; }

    // ---- B, history independence
    std::vector<bvec> fb = pack(f), x0(nb), x1(nb);
    for (ptrdiff_t i = 0; i < nb; ++i) { x0[i](0) = 0; x0[i](1) = 0; }
    amg->apply(fb, x0);
    Mat B = extract_block(*amg, nb);
    for (ptrdiff_t i = 0; i < nb; ++i) { x1[i](0) = 1e300; x1[i](1) = -1e300; }
    amg->apply(fb, x1);
    { std::vector<double> a = unpack(x0), b = unpack(x1);
      for (ptrdiff_t i = 0; i < n; ++i) VF_REQUIRE(std::memcmp(&a[i], &b[i], sizeof(double)) == 0, "history dependence: apply(f)[" << i << "] was " << a[i] << " on the fresh hierarchy and " << b[i] << " after " << n << " unrelated applies"); }
    VF_REQUIRE(all_finite(B), "cycle operator has non-finite entries");

    Mat Ad = to_eigen(As);
    VF_REQUIRE((Ad - Ad.transpose()).cwiseAbs().maxCoeff() <= 1e-12 * Ad.cwiseAbs().maxCoeff(), "generator defect: A not symmetric");
    double Bn = B.norm(), Bmax = B.cwiseAbs().maxCoeff();
    double amin, amax; eig_sym(Ad, amin, amax);
    VF_REQUIRE(amin > 0, "generator defect: A not positive definite, lambda_min=" << amin);
    double kappa = amax / amin;
    c.label(bucket(kappa, {1e2, 1e4, 1e6}, "kappa2"));

    // ---- region of known finding F-agg (see c02_cycle.cpp).  The default over_interp is 2 for block values: a two-level V-cycle
    // then maps the range of P to its negative (1 - 2 = -1), with pre_cycles = 2 the operator (I - E^2) A^-1 nearly cancels
    // there, and rounding is measured against a much smaller ||B||: the rounding constants are 32 times larger in the region.
    double ov = cfg.set_over ? static_cast<double>(static_cast<float>(cfg.over_interp)) : 2.0; // default over_interp is 2 for block values
    bool coarsest_psd = direct || (cfg.relax != GS && (cfg.npre + cfg.npost) % 2 == 0) || (cfg.relax == GS && cfg.npre == cfg.npost);
    bool fagg_provable = coarsest_psd && ((cfg.ncycle >= 2 && ov < 2.0) || std::pow(ov, static_cast<double>(levels) - 1.0) < 2.0);
    bool fagg_region = cfg.coars == AGG && ov > 1.0 && levels >= 2 && !fagg_provable;
    // block algebra: products / inverses of 2x2 blocks carry rounding errors proportional to the conditioning of the blocks
    // (emin on A (x) S with cond(S) ~ 20: asymmetry 170 x the scalar bound); the constants scale with the square of the
    // worst 2-norm condition number of a diagonal block
    double kblk = 1;
    for (ptrdiff_t i = 0; i < A.n; ++i) for (ptrdiff_t j = A.ptr[i]; j < A.ptr[i + 1]; ++j) if (A.col[j] == i) {
        Eigen::Matrix2d M; M << A.val[j](0, 0), A.val[j](0, 1), A.val[j](1, 0), A.val[j](1, 1);
        Eigen::JacobiSVD<Eigen::Matrix2d> svd(M); kblk = std::max(kblk, svd.singularValues()(0) / svd.singularValues()(1));
    }
    c.label(bucket(kblk, {2, 10, 100}, "block-cond"));
    // emin: P(:,c) = P_tent(:,c) - D^-1 A_f P_tent(:,c) omega_c can nearly cancel (omega_c D^-1 A_f 1 ~ 1 on a small, nearly
    // isolated aggregate: the energy-minimal column tends to 0; exact cancellation is the rank-deficient class).  The entries of
    // such a column, max |P(i,c)| = p << 1 = P_tent, carry the rounding error of O(1) quantities, i.e. a RELATIVE error u kblk / p,
    // and P, R are computed separately; the cycle is homogeneous of degree 0 in the scaling of a column of P, so that relative
    // error appears unchanged in B (seen: p = 0.006, asymmetry 140 x the bound).  The constants scale with (1/p)^2.
    double pmin = 1;
    if (cfg.coars == EMIN) amgcl_verif::access::for_level_objects(*amg, [&](const auto &l) {
        if (!l.P) return;
        std::vector<double> cm(l.P->ncols, 0.0);
        for (size_t i = 0; i < l.P->nrows; ++i) for (ptrdiff_t j = l.P->ptr[i]; j < l.P->ptr[i + 1]; ++j) { double m = 0; for (int q = 0; q < 4; ++q) m = std::max(m, std::abs(l.P->val[j](q))); cm[l.P->col[j]] = std::max(cm[l.P->col[j]], m); }
        for (double v : cm) if (v > 0) pmin = std::min(pmin, v);
    });
    if (pmin < 0.1) c.label("emin:cancelling-column");
    const double rcf = (fagg_region ? 32.0 : 1.0) * kblk * kblk / (pmin * pmin);

    // ---- linearity
    {
        std::vector<double> h(n);
        for (ptrdiff_t i = 0; i < n; ++i) h[i] = alpha * f[i] + beta * gq[i];
        std::vector<bvec> hb = pack(h), yb(nb);
        for (ptrdiff_t i = 0; i < nb; ++i) { yb[i](0) = 0; yb[i](1) = 0; }
        amg->apply(hb, yb);
        std::vector<double> y = unpack(yb);
        Eigen::Map<const Vec> fv(f.data(), n), gv(gq.data(), n), yv(y.data(), n);
        Vec ref = alpha * (B * fv) + beta * (B * gv);
        double err = (yv - ref).norm();
        double scale = (16.0 + static_cast<double>(n) + kappa) * U * Bn * (std::abs(alpha) * norm2(f) + std::abs(beta) * norm2(gq));
        double ratio = scale > 0 ? err / scale : (err > 0 ? 1e300 : 0);
        c.label(bucket(ratio, {0.01, 0.1, 1, 4}, "lin-ratio"));
        VF_REQUIRE(ratio <= 32.0 * rcf, "not linear: ||apply(a f + b g) - (a B f + b B g)|| = " << err << " = " << ratio << " x (16 + n + kappa2(A)) u ||B||_F (|a|||f||+|b|||g||), n=" << n << " kappa2(A)=" << kappa);
    }

    // ---- symmetry; positivity / contraction computed here, asserted last (see c02_cycle.cpp)
    bool symlist = cfg.relax != ILUT;
    double rho = -1, bmin = 1, bmax = 1;
    if (symlist) {
        if (cfg.npre == cfg.npost) {
            double asym = (B - B.transpose()).cwiseAbs().maxCoeff();
            double sratio = asym / ((16.0 + static_cast<double>(n) + kappa) * U * Bmax);
            c.label(bucket(sratio, {0.01, 0.1, 1, 8}, "sym-ratio"));
            VF_REQUIRE(sratio <= 64.0 * rcf, "B not symmetric: max|B-B^T| = " << asym << " = " << sratio << " x (16 + n + kappa2(A)) u max|B|, n=" << n << " kappa2(A)=" << kappa);
            eig_sym(B, bmin, bmax);
            double mu_min, mu_max;
            VF_REQUIRE(eig_BA_symmetric(B, Ad, mu_min, mu_max), "Cholesky of A failed");
            rho = std::max(std::abs(1 - mu_min), std::abs(1 - mu_max));
        } else rho = rho_general(B, Ad);
        c.label(bucket(rho, {0.1, 0.5, 0.9, 0.99, 1.0}, "rho"));
        c.desc << " | levels=" << levels << " rho=" << rho;
    }

    // ---- scaling by a power of two
    if (cfg.relax != ILUT) {
        double s = std::ldexp(1.0, kexp);
        Csr<blk> As2 = A; for (auto &v : As2.val) v = s * v;
        auto A2 = to_crs<blk>(As2);
        BAmg amg2(*A2, prm);
        Mat B2 = extract_block(amg2, nb);
        for (ptrdiff_t j = 0; j < n; ++j) for (ptrdiff_t i = 0; i < n; ++i) {
            double a = s * B2(i, j), b = B(i, j);
            if (std::abs(a) < 1e-290 && std::abs(b) < 1e-290) continue; // underflow range: products flush to zero / denormals differently
            VF_REQUIRE(std::memcmp(&a, &b, sizeof(double)) == 0 || (a == 0 && b == 0), "scaling: 2^" << kexp << " * B'(" << i << "," << j << ") = " << a << " but B = " << b << " (difference " << a - b << ")");
        }
        c.label("scaling-checked");
    }

    // ---- positivity and contraction, last
    if (symlist) {
        if (fagg_region) { c.label(rho < 1 ? "F-agg-region:rho<1" : "F-agg-region:rho>=1"); if (c.known("F-agg")) return; }
        if (cfg.relax != GS) {
            int lvl = -1; double fine = 0; double srho = worst_coarse_smoother_rho_block(*amg, &lvl, &fine);
            c.label(bucket(fine, {0.9, 1.0}, "fine-smoother-rho"));
            c.label(bucket(srho, {0.5, 0.9, 1.0}, "coarse-smoother-rho"));
            c.desc << " | smoother rho fine=" << fine << " coarse=" << srho;
            if (srho >= 1.0 && levels >= 2) { c.desc << " (level " << lvl << ")"; if (c.known("F-smoother-coarse")) return; }
        }
        if (cfg.npre == cfg.npost) VF_REQUIRE(bmin > 0, "B not positive definite: lambda_min(sym B) = " << bmin << " (lambda_max " << bmax << ")");
        VF_REQUIRE(rho < 1.0 - 1e-10, "no contraction: rho(I - B A) = " << std::setprecision(12) << rho << " with " << levels << " levels");
    }
}

static std::vector<Prop> props() { return { Prop("cycle_operator_block", prop_cycle_block, 3000, 30000, 100, 2, {1}, 4, 16) }; }
static std::vector<Enum> enums() { return {}; }
VF_MAIN(props(), enums())
