#!/usr/bin/env python3
"""Regenerate the findings tables of DESIGN.md (between the FINDINGS markers) from known_findings.json."""
import json, os, re
ROOT = os.path.dirname(os.path.dirname(os.path.abspath(__file__)))
d = json.load(open(os.path.join(ROOT, "known_findings.json")))
def esc(s): return s.replace("|", "\\|").replace("\n", " ")
out = []
out.append("Generated from `known_findings.json` by `bin/gen_findings_md.py`.\n")
out.append("**Repaired in /repo (one `fix:` commit per root cause; the witness is a regression case that fails on the pinned base tree and passes now):**\n")
out.append("| id | property (also) | commit | what failed | regression case |\n|---|---|---|---|---|")
for f in d["findings"]:
    if f["status"] != "fixed": continue
    also = (" (" + ", ".join(f["also_affects"]) + ")") if f.get("also_affects") else ""
    line = f["line"].split(" ", 3)[3] if f["line"].count(" ") >= 3 else f["line"]
    out.append("| %s | %s%s | `%s` | %s | `%s` |" % (f["id"], f["property"], also, f["commit"], esc(line), f["witness"]))
out.append("\n**Listed, not repaired (the check prints `KNOWN-FINDING` while the witness still fails; the region named by the predicate is excluded by construction and counted):**\n")
out.append("| id | property | what | excluded region (predicate) | witness |\n|---|---|---|---|---|")
for f in d["findings"]:
    if f["status"] != "known": continue
    out.append("| %s | %s | %s | %s | `%s` |" % (f["id"], f["property"], esc(f["what"]), esc(f.get("predicate", "")), f["witness"]))
text = "\n".join(out) + "\n"
p = os.path.join(ROOT, "DESIGN.md")
s = open(p).read()
b, e = "<!-- FINDINGS-BEGIN -->\n", "<!-- FINDINGS-END -->\n"
if b in s:
    s = s[:s.index(b) + len(b)] + text + s[s.index(e):]
    open(p, "w").write(s)
    print("DESIGN.md updated: %d fixed, %d known" % (sum(f["status"] == "fixed" for f in d["findings"]), sum(f["status"] == "known" for f in d["findings"])))
else:
    print(text)
