#!/usr/bin/env python3
"""record_seed.py <seed-dir-name> <status> <caught_by> [note]
Writes the lead's verification of a seeded change into seeded/<name>/meta.json (keeps the author's fields)."""
import json, os, sys
ROOT = os.path.dirname(os.path.dirname(os.path.abspath(__file__)))
name, status, caught_by = sys.argv[1], sys.argv[2], sys.argv[3]
note = sys.argv[4] if len(sys.argv) > 4 else ""
p = os.path.join(ROOT, "seeded", name, "meta.json")
m = json.load(open(p))
m["lead_verification"] = dict(status=status, caught_by=caught_by.split(","), note=note,
    how="patch applied to a scratch copy of the library (bin/try_seed.sh: VERIF_REPO=<copy> bin/check <id> --tier quick); demo and existing tests verified by the authoring agent in its own worktree")
json.dump(m, open(p, "w"), indent=1)
