#!/usr/bin/env python3
"""Regenerate the seeded-changes table of DESIGN.md (between the SEEDS markers) from seeded/*/meta.json."""
import json, os, glob
ROOT = os.path.dirname(os.path.dirname(os.path.abspath(__file__)))
rows = []
for p in sorted(glob.glob(os.path.join(ROOT, "seeded", "*", "meta.json"))):
    m = json.load(open(p)); name = os.path.basename(os.path.dirname(p))
    lv = m.get("lead_verification", {})
    def esc(s): return str(s).replace("|", "\\|").replace("\n", " ")
    rows.append("| `%s` | %s | %s | %s | %s | %s |" % (name, esc(m.get("property", name[:3])), esc(", ".join(m.get("files_changed", [])) if isinstance(m.get("files_changed"), list) else m.get("files_changed", "")),
        esc(m.get("needs_to_manifest", ""))[:300], esc(lv.get("status", "not yet run")), esc(", ".join(lv.get("caught_by", [])) + ((" - " + lv["note"]) if lv.get("note") else ""))))
text = "| seeded change | property | file | needs to manifest | outcome | caught by |\n|---|---|---|---|---|---|\n" + "\n".join(rows) + "\n"
p = os.path.join(ROOT, "DESIGN.md"); s = open(p).read()
b, e = "<!-- SEEDS-BEGIN -->\n", "<!-- SEEDS-END -->\n"
if b in s:
    s = s[:s.index(b) + len(b)] + text + s[s.index(e):]; open(p, "w").write(s); print("DESIGN.md updated with %d seeded changes" % len(rows))
else: print(text)
