#!/bin/bash
# usage: bin/try_seed.sh <seeded dir> <property id> [more property ids]
# applies seeded/<dir>/patch.diff to a scratch copy of the library and runs the quick check(s) against it
set -u
d=$(realpath "$1"); shift
tag=$(basename "$d" | tr -c 'A-Za-z0-9\n' '_')
mut=/var/tmp/mut-seed-$tag
rm -rf "$mut"; mkdir -p "$mut"; cp -r /repo/amgcl /repo/lib "$mut"/
(cd "$mut" && git init -q . && git apply "$d/patch.diff") || { echo "patch does not apply"; exit 2; }
rc_all=0
for pid in "$@"; do
  out=$(VERIF_REPO="$mut" python3 /verif/bin/check "$pid" --tier quick 2>/dev/null)
  rc=$?
  nv=$(echo "$out" | grep -c '^VIOLATION')
  echo "SEED $(basename $d) -> $pid: exit=$rc violations=$nv : $(echo "$out" | grep -A1 '^VIOLATION' | sed -n 2p | cut -c1-220)"
  [ $rc -eq 1 ] && rc_all=1
done
alt=alt-$(python3 -c "import hashlib,sys; print(hashlib.sha256(sys.argv[1].encode()).hexdigest()[:8])" "$mut")
rm -rf "$mut" "/verif/build/$alt" "/verif/replay/found-${alt#alt-}" 2>/dev/null
exit $rc_all
