#!/usr/bin/env python3
"""Regenerate MANIFEST.json from bin/registry.py (claimed checks) and the property list."""
import json, os, sys
ROOT = os.path.dirname(os.path.dirname(os.path.abspath(__file__)))
sys.path.insert(0, os.path.join(ROOT, "bin"))
from registry import PROPS, TARGETS, MANIFEST_TEXT, HOOK_COMMITS
ids = [json.loads(l)["id"] for l in open(os.path.join(ROOT, "properties.jsonl"))]
checks, na = [], []
for pid in ids:
    if pid in PROPS and not PROPS[pid].get("unclaimed"):
        t = MANIFEST_TEXT[pid]
        checks.append(dict(
            property_id=pid,
            quick_cmd="python3 bin/check %s --tier quick" % pid,
            thorough_cmd="python3 bin/check %s --tier thorough" % pid,
            evidence_file="/verif/evidence/%s.json" % pid,
            replay_cmd_template="python3 bin/check %s --replay {path}" % pid,
            engine=t["engine"],
            level_claimed=dict(category=PROPS[pid]["level"], text=t["level_text"], design_ref=t["design_ref"]),
            level_note=t["level_note"],
            technique=t["technique"],
        ))
    else:
        na.append(dict(property_id=pid, reason=MANIFEST_TEXT.get(pid, {}).get("na_reason", "no check has been built for this property yet; it is not claimed")))
m = dict(
    version=1,
    setup_cmd="python3 bin/check --build-all",
    hooks=dict(guard="AMGCL_VERIF", enable="every harness is compiled with -DAMGCL_VERIF -I/repo (header-only library; see bin/check)",
               baseline_off_cmd="cmake --build /repo/_build -j16 && ctest --test-dir /repo/_build -j8 --timeout 900",
               source_commits=HOOK_COMMITS, add_only=True),
    engines=[
        dict(name="rapidcheck", path="/usr/include/rapidcheck.h", serves_properties=sorted(p for p in PROPS if not PROPS[p].get("unclaimed")), kind_free_text="property-based testing with integrated shrinking; cases are uint32 tapes decoded constructively (common/tape.hpp, common/harness.hpp)"),
        dict(name="libFuzzer", path="clang++ -fsanitize=fuzzer,address,undefined", serves_properties=sorted(p for p in PROPS if PROPS[p].get("fuzz") and not PROPS[p].get("unclaimed")), kind_free_text="coverage-guided fuzzing of the same tape decoders with the semantic oracle inside the target"),
        dict(name="enumerators", path="common/harness.hpp (--enum)", serves_properties=sorted(p for p in PROPS if PROPS[p].get("has_enum") and not PROPS[p].get("unclaimed")), kind_free_text="exhaustive small-scope enumeration feeding the same property functions"),
    ],
    checks=checks,
    not_applicable=na,
    notes="One driver (bin/check) builds the harness executables of a property against /repo's working tree (content-hashed cache under /verif/build), runs rapidcheck shards, enumerators and libFuzzer campaigns in parallel, confirms every candidate failure by replaying its saved case three times, matches known findings (known_findings.json), and writes evidence/<id>.json.",
)
json.dump(m, open(os.path.join(ROOT, "MANIFEST.json"), "w"), indent=1)
print("claimed:", [c["property_id"] for c in checks], "not claimed:", [n["property_id"] for n in na])
