"""C02 — the AMG cycle is a fixed linear, symmetric positive definite, contracting operator."""
TARGETS = {
    "c02_cycle": dict(src="props/c02_cycle.cpp", flavors=["gcc", "asan"], asan_div=8),
    "c02_cycle_block": dict(src="props/c02_cycle_block.cpp", flavors=["gcc"]),
}

PROPS = {
    "C02": dict(
        targets=["c02_cycle", "c02_cycle_block"],
        shard_mult={"quick": 3, "thorough": 2},
        level="exploration",
        rule="tape-decoded cases: SPD irreducibly diagonally dominant M-matrix (vf::gen_graph 10 families + vf::gen_mmat, contrast <= 100, optional grid anisotropy, "
             "n <= 200 quick) x one hierarchy amg<builtin<double>, runtime coarsening wrapper, runtime relaxation wrapper> (4 coarsenings x 9 relaxations; ncycle 1..2, npre/npost 0..3 with npre + npost >= 1 (V/W(0,nu) and V/W(nu,0) cycles included), "
             "pre_cycles 1..2, coarse_enough / max_levels / direct_coarse variations, coarsening.aggr.block_size in {1 (5/8), 2, 3} for the aggregation-type coarsenings (the scalar matrix padded to a multiple of the block size, or b node-wise coupled copies of it), component parameters in documented ranges). B = [apply(e_1) .. apply(e_n)]. Asserted per case: "
             "history independence (apply(f) bitwise equal before/after n unrelated applies, dirty output vector), linearity (apply(a f + b g) vs a B f + b B g, "
             "<= 32 (16 + n + kappa_2(A)) u ||B||_F (|a|||f||+|b|||g||)), scaling 2^k B(2^k A) == B(A) bitwise for k in [-20,20] (all relaxations but ILUT); for the symmetric smoother list "
             "(damped_jacobi, spai0, gauss_seidel, ilu0, iluk, ilup, chebyshev): symmetry max|B-B^T| <= 64 (16 + n + kappa_2) u max|B| and lambda_min(sym B) > 0 when npre == npost, "
             "rho(I - B A) < 1 - 1e-10 always (symmetric eigen-solver on L^T B L when npre == npost, general eigenvalues otherwise). "
             "non-trivial: the hierarchy has >= 2 levels. distinct = distinct decoded choice sequences (64-bit hash), united over shards. "
             "c02_cycle_block: the same clauses on builtin<static_matrix<double,2,2>> (3 SPD block families: scalar M-matrix stored with 2x2 blocks, block graph Laplacian with non-commuting SPD blocks, A (x) S; coarsenings sa/aggregation/emin, relaxations spai0, damped_jacobi, gauss_seidel, ilu0, iluk, ilup, chebyshev (+ ilut for linearity), B extracted through the 2n scalar unit vectors, dense oracles on the scalar expansion, rounding constants scaled by the squared condition number of the worst diagonal block and, for emin, by 1/p^2 with p the smallest column maximum of a prolongation operator (cancelling columns)); additional regions F-sa-block-singular-diagonal, F-emin-block-adjoint. "
             "Known-finding regions (counted in excluded_known, the remaining clauses are asserted before the exclusion): F-agg, F-emin-residue (emin aggregates whose A_f P_tent column is a non-zero rounding residue; exact zeros are repaired in /repo by a58f297 and asserted), F-smoother-coarse, F-rs-abseps, F-emin-pointwise-rank-deficient (emin with aggr.block_size > 1: rank-deficient transfer operators).",
        assumptions=["Eigen's symmetric and general eigenvalue solvers are accurate to 1e-10 on n <= 200",
                     "rounding scale of one cycle application is (n + kappa_2(A)) u ||B|| ||f|| (measured maxima: 2.5 for linearity, 5.1 for symmetry, over 1e5 cases)",
                     "one OpenMP thread (serial Gauss-Seidel / serial or level-scheduled ILU solves as configured)"],
        min_nontrivial=4000,
    ),
}

MANIFEST_TEXT = {
    "C02": dict(
        engine="rapidcheck",
        technique="property-based testing: the cycle operator is extracted column by column into a dense matrix and checked with Eigen (symmetric/general eigenvalues, Cholesky); "
                  "bitwise differential checks for history independence and power-of-two scaling; rounding-bounded linearity check",
        level_text="Generated-input search over matrices x hierarchy configurations through the runtime interface (all 4 coarsenings x 9 relaxations in one executable). Every clause of the property "
                   "is an executable predicate on the extracted operator B; contraction and positivity are decided by dense eigenvalue computations, which is exact enough for n <= 200. "
                   "It cannot show the clauses beyond the explored sizes and configurations.",
        level_note="trusted: Eigen (eigenvalues, Cholesky), vf::gen_graph/gen_mmat, the predicates of the known-finding regions in props/c02_common.hpp",
        design_ref="DESIGN.md section 4, C02",
    ),
}
