"""C12 — distributed solve."""
TARGETS = {
    "c12_solve": dict(src="mpi/c12_solve.cpp", flavors=["mpi"], run_flavors=["mpi"], ranks=[1, 2, 3, 4, 5, 8], ranks_thorough=[1, 2, 3, 4, 5, 6, 7, 8]),
}
PROPS = {
    "C12": dict(
        targets=["c12_solve"],
        level="exploration",
        rule="lock-step SPMD rapidcheck under mpirun -np k (k in 1,2,3,4,5,8; 1..8 thorough). repart_decision: merge::is_needed() on generated partitions with thresholds at the per-rank row counts agrees on all ranks and follows the documented rule, the partitioner returns a global permutation (a disagreement dead-locks the setup, which a time-bounded run cannot report). one_level: block_preconditioner and subdomain_deflation with constant / per-dof / generated deflation vectors. solve: SPD M-matrices on grids / bounded-degree graphs (n<=400, contrast<=10), "
             "contiguous row partitions incl. empty ranks, mpi::make_solver over the runtime interface: {smoothed_aggregation, aggregation} x 9 relaxations x 8 solvers, "
             "single-level relaxation preconditioner, repartitioning (merge) on/off, direct_coarse on/off; (iters, resid) gathered from every rank must be bitwise identical, the assembled "
             "solution's true residual must match the reported one (kappa-aware allowance), iterations <= maxiter (+L-1), Krylov combinations must reach 1e-8 within 100 iterations. "
             "aggregation/smoothed: distributed coarsening classes called directly with near-null-space of dimension 0..3: global partition into non-empty aggregates, P*B_coarse == B, "
             "P^T P = I, R == P^T, A_c == R*A*P/alpha against dense references. direct: mpi::direct::skyline_lu equals the dense solution for any distribution. "
             "solve_block2: the same through a 2x2 block backend (SPD block systems with non-commuting blocks, truthfulness on the scalar expansion, convergence). "
             "one_level: mpi::block_preconditioner and mpi::subdomain_deflation (constant deflation) around the serial runtime preconditioner (amg / relaxation). "
             "direct_block2/3: the distributed direct solver with block values. "
             "non-trivial: >=2 ranks own rows (and >=2 iterations / >=2 aggregates). distinct = distinct decoded choice sequences per rank count.",
        assumptions=["message arrival order is whatever OpenMPI 4.1.4 produces on one shared-memory node", "only the merge repartitioner is available offline (no ParMETIS / PT-Scotch)",
                     "termination is observed through a watchdog; a hang that does not reproduce is reported as inconclusive"],
        min_nontrivial=60,
        timeout={"quick": 1200, "thorough": 3600},  # a dead-lock of the code under test costs one job this long (then: inconclusive)
    ),
}
MANIFEST_TEXT = {
    "C12": dict(
        engine="rapidcheck over MPI (lock-step SPMD)",
        technique="property-based testing of the distributed solver stack against serial dense oracles: rank-consistency of reported results, true residual of the assembled solution, partition/null-space/Galerkin invariants of the distributed coarsening, exact coarse solve",
        level_text="Generated-input search over systems, rank counts 1..8, contiguous partitions with empty ranks and the runtime configuration space available offline. Decides truthfulness and rank consistency on everything "
                   "explored; convergence is asserted only on the calibrated model-problem domain; liveness only via a watchdog.",
        level_note="trusted: OpenMPI runtime, Eigen for condition numbers, dense references in mpi/c12_solve.cpp",
        design_ref="DESIGN.md section 4, C12",
    ),
}
