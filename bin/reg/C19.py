"""C19 — matrix/vector files round-trip exactly; bad files fail cleanly."""
_SAN = ["-fsanitize=address,undefined", "-fno-sanitize-recover=undefined", "-fno-omit-frame-pointer"]
TARGETS = {
    # round trips, documented failures, single faults (rapidcheck + exhaustive enumerator), fuzz targets
    "c19_io": dict(src="props/c19_io.cpp", flavors=["gcc", "asan", "fuzz"], asan_div=3),
    # the same TU built by g++ with ASan+UBSan: bin/check runs enumerators only in the "gcc" flavor, so the exhaustive
    # single-fault enumeration gets its sanitizer pass through this second target (only the fault prop/enumerator run here)
    "c19_io_san": dict(src="props/c19_io.cpp", flavors=["gcc"], flags=_SAN + ["-DC19_FAULT_ONLY"]),
}

PROPS = {
    "C19": dict(
        targets=["c19_io", "c19_io_san"],
        only_props={"c19_io_san": ["fault"]},
        has_enum=True,
        enum_shards={"single_faults": {"quick": 8, "thorough": 16}},
        fuzz=[dict(target="c19_io", prop="fuzz_edits", quick_runs=20000, thorough_runs=800000, thorough_jobs=4, max_len=256, seed_corpus=["fuzz/corpus/c19_edits"]),
              dict(target="c19_io", prop="fuzz_raw", quick_runs=20000, thorough_runs=400000, thorough_jobs=4, max_len=1024, seed_corpus=["fuzz/corpus/c19_raw"])],
        level="fault_enumeration",
        rule="round trips: tape-decoded matrices (0..30 rows, empty rows/dims, 1x1, rectangular, sorted and unsorted rows) and dense arrays with values from all finite classes "
             "(signed zero, denormals, extreme exponents, random bit patterns, 17-digit, limits; float, complex<double>, int, int64; NaN/Inf payloads in the binary format) written by mm_write / io::write "
             "(layout of examples/mm2bin.cpp) or, for symmetric storage, by the harness, read back bitwise, every row range (all ranges for n<=5) compared with the slice of the full read. "
             "faults: exhaustive over every truncation point and every single-byte substitution {8 bit flips,'0','9','-','.','e',' ','\\n','%'} of 11 base files (15 thorough), "
             "each read in full and in 6 row ranges; outcome must be std::exception or a result passing the validity predicate and the slice relation; executed by a plain g++ build "
             "(size fields > 2^24 elements under RLIMIT_AS 2 GB) and by a g++ ASan+UBSan build (those size fields skipped and counted). libFuzzer: tape-chosen edit sequences on the base files and raw file bytes. "
             "non-trivial: round trip with >=2 rows and >=2 entries (symmetric: an off-diagonal entry); fault inside the size line/size field, an index or row pointer, or the last data line/element. "
             "distinct = distinct decoded choice sequences (64-bit hash), united over shards.",
        assumptions=["glibc strtod/printf are correctly rounded (the harness formats the symmetric files with %.17g / %.20e)",
                     "size fields that decode to more than 2^24 elements are executed only in the non-sanitized build (ASan's operator new aborts instead of throwing)",
                     "validity for binary CRS files does not include a column bound: the format does not store the number of columns"],
        min_nontrivial=2000,
    ),
}

MANIFEST_TEXT = {
    "C19": dict(
        engine="enumerators + rapidcheck + libFuzzer",
        technique="exhaustive single-fault enumeration (all truncation points, all single-byte substitutions from a 16-element alphabet) of small valid files under a plain and an ASan+UBSan build, "
                  "bitwise write/read round-trip property tests over all finite value classes and all row ranges, directed must-throw tests for the documented failures, "
                  "structure-aware (edit-sequence) and raw-byte coverage-guided fuzzing with the validity oracle inside the target",
        level_text="Fault enumeration: for each base file the complete single-fault space named by the property (any truncation point, any corrupted byte from the alphabet) is executed and every outcome is checked to be an exception or a "
                   "structurally valid result consistent between full and range reads, with no sanitizer report; round trips and documented failures are generated-input searches. This is the right level because the property quantifies "
                   "over all single faults of a valid file, which is a finite space for a given file; it says nothing about files other than the enumerated ones beyond what rapidcheck and libFuzzer sample.",
        level_note="trusted: the harness's own header parsers (used only to decide which cases allocate too much for ASan), its validity predicate and slice comparison (props/c19_oracle.hpp), glibc number formatting; "
                   "byte values outside the 16-element substitution alphabet are covered only by the fuzzers",
        design_ref="DESIGN.md section 4, C19",
    ),
}
