"""C18 — composite preconditioners realise their block formulas."""
TARGETS = {
    "c18_schur": dict(src="props/c18_schur.cpp", extra_src=[], flavors=["gcc", "asan"], asan_div=6),
    "c18_cpr": dict(src="props/c18_cpr.cpp", extra_src=[], flavors=["gcc", "asan"], asan_div=6),
    "c18_defl": dict(src="props/c18_defl.cpp", extra_src=[], flavors=["gcc", "asan"], asan_div=6),
}

PROPS = {
    "C18": dict(
        targets=["c18_schur", "c18_cpr", "c18_defl"],
        shard_mult={"quick": 8, "thorough": 6},
        level="exploration",
        rule="tape-decoded saddle-point systems K=[Kuu Kup;Kpu Kpp] (Kuu SPD M-matrix on path/tree/band/grid graphs, nu<=20, np<=10; Kpu = Kup^T with Kpp negative definite, "
             "Kpu = -Kup^T with Kpp SPD, independent / perturbed Kpu with a diagonal lift that makes S and S^ strictly diagonally dominant; no coupling 1/8) under every pmask form "
             "(vector, raw pointer through the property tree, '%n:m', '<m', '>m', random positions), type 1/2, adjust_p 0/1/2, approx_schur, simplec_dia; inner solvers are user-defined "
             "dense long-double solvers that also record the matrices/right-hand sides they are handed (second prop: make_solver<as_preconditioner<ilu0|damped_jacobi>, gmres> at tol 1e-14). "
             "CPR/CPR-DRS: block-structured multi-phase style systems, b=2..4, 1..10 cells on 9 graph families, structurally incomplete blocks, 0..2 inactive block rows (active_rows), "
             "scalar input with block_size b and b x b static_matrix input side by side, known linear inner preconditioners. Deflated solver: SPD M-matrices n<=40 and, in two thirds of the cases, non-symmetric "
             "convection-diffusion style systems M + skew convection (+ diagonal lift; symmetric part SPD, so A and Z^T A Z are nonsingular and non-symmetric), 1..5 deflation vectors "
             "(subdomain indicators, perturbed, integer weighted), 7 Krylov solvers, 3 preconditioners; |Z^T(b-Ax)| asserted after project() and after apply(). "
             "non-trivial: both u and p parts non-empty with non-zero coupling in both directions (schur); >=2 cells with an off-diagonal block (cpr); n > nvec and A not diagonal (deflated). "
             "distinct = distinct decoded choice sequences (64-bit hash), united over shards.",
        assumptions=[
            "the dense long-double reference (Gauss-Jordan / GEPP with partial pivoting) is accurate to 8 n 2^-64 |A^-1||A||x| componentwise",
            "rounding bounds are first-order componentwise propagations with a safety factor 4 (stated next to each check); calibrated worst observed error/bound ratio 0.05 (dense inner solvers), 0.26 (GMRES inner solvers), "
            "0.033 for |Z^T(b-Ax)| after project()/apply() and 0.047 for x itself against x0 + Z E^-1 Z^T (b - A x0) over 1.04e6 cases (the inversion error of E = Z^T A Z enters through |L||U| of its "
            "pivoted LU, not through |E|; the error of x is |Z| dd + lin_comb rounding with dd = |E^-1|(|Z|^T (n+2)u(|b|+|A||x0|) + ...), i.e. relative to the data, not to the result)",
            "an exact breakdown reported by an exception (zero rho/sigma/omega, IDR(s) zero M[k,k]) is accepted and counted for bicgstab, bicgstabl, idrs on any system; cg and the gmres family must not throw",
            "schur_gmres: the premise 'exact inner solves' is checked per case: every inner solve must leave a relative residual <= tau = 1e-14 + 8 n u (measured in double with the same operator); "
            "cases where an inner GMRES misses that (about 5%, one NaN in 160000: GMRES divides by a vanishing Hessenberg pivot when the Krylov space of a tiny matrix-free system is exhausted before "
            "tol is reached) are counted and not asserted",
            "deflated solve: solvers that recompute the residual before returning (gmres, fgmres, lgmres) must report the true residual of the original system within "
            "gap = 16 u (iters+2) n^1.5 (||A|| (||x||+||x0||+||A^-1 f||) + ||f||)/||f||; for recurrence-updated residuals (cg, bicgstab, bicgstabl, idrs) the claim checked is "
            "true residual <= max(tol, reported)(1+1e-3) + gap (the drift of the recurrence itself is C01's subject; IDR(s) was seen to report 7e-11 at a true 1.2e-9)",
        ],
        min_nontrivial=300,
    ),
}

MANIFEST_TEXT = {
    "C18": dict(
        engine="rapidcheck",
        technique="property-based testing with user-defined exact / recording inner solver classes as template arguments (hook-free observation of private sub-blocks by probing with unit vectors), "
                  "dense long-double reference with explicit first-order rounding bounds, bitwise comparison where arithmetic is exact (sub-block reassembly, scalar vs block CPR operators, partial_update)",
        level_text="Generated-input search: schur_pressure_correction is instantiated with dense exact inner solvers so that type 1 must be the exact inverse (apply(Kx)==x) and type 2 the block "
                   "upper-triangular solve, for every pressure-mask form and adjust_p/approx_schur/simplec_dia setting; Kuu, Kup, Kpu, Kpp are recovered exactly from the object and compared with K. "
                   "CPR's Fpp, Scatter and pressure matrix are observed exactly and compared with the first-row-of-inverse weighting, the two-stage formula is recomputed densely, scalar and block "
                   "input are compared entry by entry, partial_update(same matrix) bitwise. deflated_solver: Z^T(b-Ax)=0 after project()/apply(), truthful residual on the original system. "
                   "Exploration only: holds on what was generated (n<=48), says nothing about larger or ill-conditioned systems.",
        level_note="trusted: props/c18_common.hpp (dense algebra, inner solver class), the rounding-bound derivations in props/c18_schur.cpp / c18_cpr.cpp, common/dense.hpp",
        design_ref="DESIGN.md section 4, C18",
    ),
}
