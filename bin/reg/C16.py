"""C16 — direct and dense kernels are exact: skyline LU, small inverse, QR, static_matrix algebra, Cuthill-McKee."""
TARGETS = {
    "c16_lu": dict(src="props/c16_lu.cpp", flavors=["gcc", "asan"], asan_div=6),
    "c16_qr": dict(src="props/c16_qr.cpp", flavors=["gcc", "asan"], asan_div=6),
}

PROPS = {
    "C16": dict(
        targets=["c16_lu", "c16_qr"],
        shard_mult={"thorough": 3},
        level="exploration",
        rule="skyline LU, exact family: sparsity pattern (exhaustive: every off-diagonal pattern up to 4x4 [5x5 thorough]; random: path/grid/er/tree/band/star/union/diagonal graphs, n<=20, "
             "directions dropped independently => structurally non-symmetric, explicitly stored zeros, shuffled rows) x ordering (Cuthill-McKee, reverse Cuthill-McKee, identity and random "
             "permutation through the ordering policy argument) x value type (double, complex, 2x2 and 3x3 static_matrix); the matrix is constructed in the solver's own ordering so that all "
             "pivots are units times powers of two and L, U, D^-1 and the substitutions are exactly representable: the solution must equal the integer x_true bitwise; a pivot constructed as exactly "
             "zero must raise an exception. Cases whose intermediates exceed 2^52 (dense fill) are not run and counted under label exact-guard-exceeded. "
             "Floating-point family: n<=80 (blocks n<=40) M-matrix/Hermitian, row and column strictly diagonally dominant values on the same patterns, residual <= c N^2 u ||A|| ||x|| "
             "(c = 8 real, 32 complex, x8 and x max(1, 2||A||/gap) for block values whose pivots are inverted explicitly), forward error for row-dominant matrices via ||A^-1|| <= 1/gap. "
             "Large-diameter class (lu_long_*): chains, bands of width 2-3, 2-3 wide strips, caterpillars and unions of tiny components with n in [250,1500] (hundreds of breadth-first "
             "level sets, label level-sets>=256/>=512), natural / reversed / random numbering, optional dropped directions, row- or column-dominant double and complex values, orderings "
             "Cuthill-McKee / reverse / identity / random: both Cuthill-McKee variants must return a bijection (called on an output vector with slack so that surplus writes are reported), "
             "the solver must not throw, residual <= min(8 N^2, 16 (W+1)^3) u ||A|| ||x|| (W = skyline half-width in the solver's ordering) and the forward error through 1/gap. "
             "detail::inverse / math::inverse: n=1..8 (static 2,3,4,5,6,8), signed permutation * 2^e (bitwise), P*L*U integers, dominant-after-permutation reals, graded rows; "
             "|A X - I| <= c n^2 2^(n-1) u max|a| ||x_k||_1. Cuthill-McKee (both variants): every undirected graph on <=6 nodes and every directed graph on <=4 nodes [5 thorough], with and "
             "without stored diagonal, plus random graphs n<=60: output is a permutation of 0..n-1. QR: shapes 1..12 x 1..12 (every shape x 8 families x both orders enumerated), row/col major, "
             "padded strides, real/complex/2x2 block; A=QR and Q^H Q=I within 16 m k u, R upper triangular, trailing Q columns zero, padding untouched; solve vs Eigen COD with "
             "50 max(m,n) u kappa (||x|| + kappa ||r||/||A||) and the normal-equation / consistency conditions, incl. computed=true reuse. static_matrix: entry-wise definitions and ring identities on "
             "integer blocks (double, complex, int; square and rectangular), bitwise. non-trivial: LU: n>=2 with fill inside the skyline, structural non-symmetry, block values or a zero pivot; "
             "large-diameter LU: >= 256 level sets; inverse: needs a row exchange; QR: m != n with min(m,n) >= 2; Cuthill-McKee: n>=3 and disconnected/non-symmetric/dense; distinct = distinct decoded choice sequences (64-bit hash).",
        assumptions=["arithmetic on integers / dyadic rationals below 2^52 is exact in double, complex multiplication and division by units included",
                     "LU without pivoting of a matrix diagonally dominant by rows or columns has |L||U| <= (2N-1)||A|| (Higham, Accuracy and Stability, ch. 9); the residual constant c absorbs the factor 3(2N-1)/N",
                     "Eigen's JacobiSVD and completeOrthogonalDecomposition are accurate to a few ulps times kappa on matrices up to 12x12",
                     "systems with kappa > 1e12 are numerically rank deficient and outside the 'full-rank' clause (counted under ill-conditioned-not-asserted)"],
        min_nontrivial=3000,
        enum_shards={"lu_all_patterns": {"quick": 4, "thorough": 16}, "cm_all_graphs": {"quick": 2, "thorough": 8},
                     "qr_all_shapes_double": {"quick": 1, "thorough": 4}, "qr_all_shapes_complex": {"quick": 1, "thorough": 4}},
    ),
}

MANIFEST_TEXT = {
    "C16": dict(
        engine="exhaustive enumerators + rapidcheck (tape-decoded generators)",
        technique="exhaustive small-scope enumeration (all sparsity patterns up to 4x4 for skyline LU, all graphs up to 6 nodes for Cuthill-McKee, all QR shapes up to 12x12) and property-based testing; "
                  "oracles: bitwise equality on constructed exactly-representable factorizations, backward/forward rounding bounds in long double, Eigen COD/SVD as least-squares reference, "
                  "validity predicate for the reordering; ASan/UBSan twins",
        level_text="Generated-input search with exhaustive sub-scopes: the skyline LU solver is run on matrices constructed in its own elimination order so that the exact solution is representable "
                   "(bitwise comparison, zero pivot must throw) for every off-diagonal pattern up to 4x4 and random patterns up to 20 nodes, and on diagonally dominant / SPD / structurally non-symmetric / "
                   "disconnected real, complex and block matrices up to n=80 and on large-diameter (chain / band / strip / many-component) matrices up to n=1500 with a backward-error bound; the pivoted inverse, QR (factorize and solve) and static_matrix algebra are compared with their "
                   "definitions; Cuthill-McKee is checked to return a permutation on every graph up to 6 nodes. Small dense kernels with cheap exact oracles: enumeration plus generated search is the "
                   "appropriate level; absence beyond the enumerated sizes is not shown.",
        level_note="trusted: the Crout-recurrence constructor in props/c16_lu.cpp, long double / Eigen references, the stated rounding bounds; exhaustive:true only for the enumerated sub-scopes",
        design_ref="DESIGN.md section 4, C16",
    ),
}
