"""C09 — results independent of thread count and interleaving."""
TARGETS = {
    "c09_sched": dict(src="props/c09_sched.cpp", flavors=["gcc", "asan"], asan_div=4),
    # thread-count differential: up to 32 OpenMP threads inside one process -> give each job 8 of the 16 slots
    "c09_diff": dict(src="props/c09_diff.cpp", flavors=["gcc"], slots=8),
}
PROPS = {
    "C09": dict(
        targets=["c09_sched", "c09_diff"],
        level="exploration",
        has_enum=True,
        enum_shards={"gs_all_patterns_nodiag_t4": {"quick": 1, "thorough": 4}, "gs_all_patterns_nodiag_t5": {"quick": 1, "thorough": 4}, "gs_all_patterns_t4": {"quick": 1, "thorough": 4}, "gs_all_patterns_t5": {"quick": 1, "thorough": 4},
                     "ilu_all_patterns_t4": {"quick": 1, "thorough": 4}, "ilu_all_patterns_t5": {"quick": 1, "thorough": 4}},
        rule="(1) static-schedule invariant read through the AMGCL_VERIF friend accessor from the per-thread task tables of gauss_seidel::parallel_sweep and ilu_solve::sptr_solve: "
             "every row once, and for every a_ij != 0 the row that the serial sweep processes first (true AND anti-dependencies) sits in a strictly earlier level; "
             "(2) harness-owned scheduler executes the tables with rows of a level in generated / reversed order and compares bitwise with the serial sweep; "
             "(3) thread-count differential: the same case under omp_set_num_threads in {1,2,3,4,5,8,16,17,24,32}, bitwise for products / hierarchies / sweeps / vector kernels (real and complex values), rounding bounds for reductions (real and complex inner products), emin and ILU. "
             "Domain: all n x n off-diagonal patterns n<=4 (n<=5 thorough) exhaustively at 4 and 5 threads, the same patterns crossed with every set of rows that store no diagonal entry (relaxed with D = I) for n<=3 and a fifth of n=4 (all of n=4 thorough), random graphs up to n=300 with independently deleted directions (structural non-symmetry) at 4,5,8,17,24 threads. "
             "Hierarchies are also built with 2-3 generated near-null-space vectors (aggregation-type coarsenings, depth capped). non-trivial: structurally non-symmetric pattern or >=3 levels (schedules), >=2 levels (hierarchies). distinct = distinct decoded choice sequences.",
        assumptions=["levels are separated by OpenMP barriers and a row writes only its own unknown, so the schedule invariant implies interleaving independence",
                     "real OS interleavings are sampled, not enumerated"],
        min_nontrivial=200,
        timeout={"quick": 1500, "thorough": 4 * 3600},
    ),
}
MANIFEST_TEXT = {
    "C09": dict(
        engine="rapidcheck + enumerators (hook: AMGCL_VERIF friend accessor)",
        technique="schedule-invariant checking on generated and exhaustively enumerated sparsity patterns, harness-owned level scheduler with generated intra-level orders, thread-count differential testing",
        level_text="The interleaving clause is decided on the static schedule (an input-quantified invariant that implies independence of every interleaving between barriers) for all patterns up to 4x4/5x5 and random ones, "
                   "plus execution of the schedule in generated orders; the thread-count clause by running identical cases under ten thread counts in one process. Real OS schedules are only sampled.",
        level_note="trusted: the barrier semantics of OpenMP; the reconstruction of levels from the task tables (checked against the row copies inside the tables)",
        design_ref="DESIGN.md section 4, C09",
    ),
}
