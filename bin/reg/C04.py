"""C04 — interpolation exact on the near-null space; aggregates partition the grid."""
TARGETS = {
    "c04_interp": dict(src="props/c04_interp.cpp", flavors=["gcc", "asan"], asan_div=8),
}

PROPS = {
    "C04": dict(
        targets=["c04_interp"],
        shard_mult={"quick": 2, "thorough": 3},
        level="exploration",
        rule="(i) exhaustive: every symmetric sparsity pattern on 1..5 nodes (1..6 thorough) and every pattern, structurally non-symmetric ones included, on 1..3 nodes (1..4 thorough), "
             "each with the value classes {M-matrix, mixed sign, all-positive off-diagonals, zero row sums, zero row sums with mixed signs} (small integers / dyadic values: strength ties and row sums are exact) and eps_strong in {0.08, 0.5}; on each the whole "
             "battery runs (plain/pointwise aggregates for block sizes 1..3 and min_aggregate 0..3, tentative prolongation with 0 and 2 null-space vectors, smoothed aggregation formula and row sums, "
             "Ruge-Stuben row sums with eps_trunc 0.2/0.25/0.5 and without truncation, lifting for aggregation / smoothed_aggregation / smoothed_aggr_emin with b=2,3). "
             "(ii) random: graphs from vf::gen_graph up to n=300 (path, 2-D/3-D grids, ER, tree+chords, band, star, disconnected union, diagonal) with M-matrix, convection-diffusion, diagonally dominant "
             "mixed-sign / all-positive / zero-row-sum value families (real and integer valued) and, for the row-sum clauses, symmetric matrices with mixed-sign off-diagonals and exactly zero row sums (dyadic values; nine-point grids with positive diagonal couplings and random graphs: F-rows whose positive couplings have no strong C-neighbour), optional structural non-symmetry, eps_strong in (0,1), block_size 1..4 (A (x) I_b with and without stored "
             "zeros, A (x) dense block), min_aggregate 0..4, null-space dimension 0..4 with random B, relax, estimate_spectral_radius (Gershgorin and power iteration), Ruge-Stuben do_trunc / eps_trunc "
             "in {0.2,0.25,0.5,0.75,random} on integer matrices so that v == eps_trunc*a_min occurs; the public function tentative_prolongation() is also called directly on arbitrary partitions "
             "(1..4 null-space vectors, block_size 1..2) including aggregates with fewer unknowns than null-space vectors (regression for the QR::R over-read); the *_mt registrations repeat the random props under 4 OpenMP threads. "
             "non-trivial: >=2 aggregates and at least one removed/isolated node, or null-space dimension >=2, or block_size >=2 (lifting: a coupling exists; Ruge-Stuben: a zero-row-sum row with a strong "
             "neighbour was asserted on a matrix with >=3 rows). distinct = distinct decoded choice sequences (64-bit hash), united over shards.",
        assumptions=["long double (64-bit mantissa) evaluation of the documented formulas is accurate to well below the stated rounding bounds",
                     "Householder QR error model: |Q^T Q - I| and |Q R - B|/||B(:,l)|| <= 32 (d+4) k u per aggregate with d rows and k vectors",
                     "plain_aggregates applied to the harness-built pointwise matrix is the reference for the ids of pointwise_aggregates (its own output is checked by the partition predicates)",
                     "spectral_radius with power_iters>0 (checked in C08) supplies rho for the omega of smoothed aggregation in that sub-case"],
        min_nontrivial=2000,
        enum_shards={"small_all_patterns": {"quick": 4, "thorough": 16}},
    ),
}

MANIFEST_TEXT = {
    "C04": dict(
        engine="rapidcheck + exhaustive enumerator",
        technique="property-based testing of the public aggregate classes and of transfer_operators() of all four coarsenings against independently recomputed definitions "
                  "(strength flags, partition predicates, tentative-prolongation algebra, (I - w D^-1 A_F) P_tent in long double, row sums, lifting A (x) I_b), "
                  "plus exhaustive small-scope enumeration of sparsity patterns",
        level_text="Generated-input search plus exhaustive small scopes: the property is a set of universally quantified algebraic identities and validity predicates on the output of the coarsening "
                   "classes, each with a cheap independent oracle (bitwise where integer values make the arithmetic exact or where two evaluations must coincide, an explicit rounding model otherwise). "
                   "All sparsity patterns up to 5 (6) nodes are covered exhaustively for four sign classes; beyond that the evidence is statistical and cannot show absence.",
        level_note="trusted: the long-double reference in props/c04_checks.hpp, the Householder error constants, amgcl's plain_aggregates as id reference for the pointwise lift (itself checked by predicates)",
        design_ref="DESIGN.md section 4, C04",
    ),
}
