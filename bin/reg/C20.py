"""C20 — the C interface (0- and 1-based) gives the C++ results."""
TARGETS = {
    "c20_capi": dict(src="props/c20_capi.cpp", extra_src=["$REPO/lib/amgcl.cpp"], flags=["-I$REPO/lib"], flavors=["gcc", "asan"], asan_div=4),
}

PROPS = {
    "C20": dict(
        targets=["c20_capi"],
        shard_mult={"thorough": 3},
        level="exploration",
        rule="lib/amgcl.cpp is compiled into the executable. A case is an SPD M-matrix system on a generated graph (n=20..300, int indices, rows sorted or shuffled), a replacement matrix on the same graph, "
             "a right-hand side / initial guess, and a parameter set for the run-time composite (coarsening/relaxation/solver types and their fields, generated from the C14 table with sane ranges, coarse_enough 2..25) "
             "delivered through amgcl_params_seti/setf/sets, through amgcl_params_read_json on a generated file, or both (a setter overriding a file value); NULL handle in 1/12 of the cases. "
             "Called: precond create/apply/destroy and solver create/solve/solve_f/solve_mtx/solve/destroy, each with the 0-based and with the Fortran entry points on 1-based copies. "
             "Oracle: the C++ types lib/amgcl.cpp instantiates, constructed from a mirror tree built from the documented text of each setter (int %d, float %.9g, strings/JSON tokens verbatim), same call sequence; "
             "(iterations, residual, x) bitwise equal; *_f results equal the 0-based ones; user arrays are exact-size new[] blocks (ASan twin) and memcmp-unchanged afterwards; leak check on destroy. "
             "non-trivial: >=2 parameters set, >=2 levels, no exception. distinct = distinct decoded choice sequences (64-bit hash), united over shards.",
        assumptions=["the C++ run-time interface is the reference (its own correctness is the subject of C01/C14)", "two NaN results are considered equal regardless of sign/payload",
                     "a read outside a user array is only observed by the ASan twin (exact-size heap blocks)"],
        min_nontrivial=150,
    ),
}

MANIFEST_TEXT = {
    "C20": dict(
        engine="rapidcheck (+ASan/UBSan twin)",
        technique="differential property-based testing of the C handle API against the C++ run-time interface with bitwise comparison, 0-based vs 1-based entry points on shifted copies, exact-size heap blocks under AddressSanitizer",
        level_text="Generated-input search over systems and parameter sets expressible through the C API (typed setters, JSON file, both), both index bases, construction and replacement matrices. The oracle is exact (same types, same "
                   "call sequence, bitwise comparison), so any difference is a defect of the wrapper layer; reads outside the user arrays are detected by ASan redzones. It cannot show absence beyond the explored sizes and parameter sets.",
        level_note="trusted: the C++ run-time interface as reference, the harness' own rendering of setter values to text (%d, %.9g), ASan for out-of-bounds reads",
        design_ref="DESIGN.md section 4, C20",
    ),
}
