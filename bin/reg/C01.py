"""C01 — a reported convergence is truthful: residual, iteration count, solution."""
TARGETS = {
    "c01_truth": dict(src="props/c01_truth.cpp", flavors=["gcc", "asan"], asan_div=10),
    "c01_model": dict(src="props/c01_model.cpp", flavors=["gcc"]),
    "c01_complex": dict(src="props/c01_complex.cpp", flavors=["gcc"]),
    "c01_block": dict(src="props/c01_block.cpp", flavors=["gcc"]),
}

PROPS = {
    "C01": dict(
        targets=["c01_truth", "c01_model", "c01_complex", "c01_block"],
        level="exploration",
        rule="Sub-domain T (c01_truth/truthful, c01_complex, c01_block): tape-decoded systems with kappa_1(A) <= 1e4 by construction (dense; M-matrices on 10 graph families, contrast <= 30, anisotropy, "
             "optional upwind convection; complex shifted/Hermitian; 2x2 block Kronecker/coupled/non-symmetric), n <= 400, rhs in {ones, random, A x_true}, x0 in {0, random, near solution}; call form solve(rhs, x) or solve(A2, rhs, x) with a system matrix A2 that differs from the setup matrix (same pattern, edge weights scaled within [0.5,2] / diagonal enlarged; the true residual and the conditioning K then refer to A2, the preconditioner B to the setup matrix); "
             "runtime interface make_solver<amg<B, runtime coarsening, runtime relaxation> | relaxation::as_preconditioner (via runtime::preconditioner), runtime::solver::wrapper<B>>: 8 solvers x {left,right} "
             "x 4 coarsenings x 9 relaxations x {ncycle, npre/npost 0..3, pre_cycles 0..2, coarse_enough, max_levels, direct_coarse, component parameters} x solver parameters (M, L, K, s, delta, convex, smoothing, "
             "replacement, omega, damping, check_after, maxiter 0..200); tol = max(drawn, 4000 u_P K (maxiter+2) G). Oracles: (a) |reported - true| <= 0.01 max + 200 u_P K (iters+2) G with the true residual in long double "
             "from the caller's arrays (left: ||P(f - A x)||/||f|| through precond().apply), K = max(kappa_1(A), ||A||_1 ||B||_1 max(1, ||(AB)^-1||_1)) from the extracted preconditioner B, u_P = max(u, measured relative accuracy of one preconditioner application when it exceeds 1e3 u), G = largest relative residual of the "
             "history (initial, final, and - evaluated lazily from truncated re-runs - intermediate peaks); (b) reported < tol => true < 1.1 tol; (c) iters <= maxiter (+L-1 for BiCGStab(L)). "
             "c01_truth/richardson_rate: (d) per-step A-norm bound with rho(I - w B A) from the extracted cycle and the iteration count to tol for rho < 1 (symmetric cycles); for unsymmetric cycles (npre != npost, V/W(0,nu), V/W(nu,0)) rho(I - w B A) < 1 and progress of the iteration in 40 steps, outside the C02 regions F-agg / F-smoother-coarse / F-emin-residue. "
             "Sub-domain M (c01_model): isotropic 2-D/3-D grids (>= 8 points per axis) and connected bounded-degree random graphs, contrast <= 10, default amg and solver parameters with n in (3000,15000] or "
             "coarse_enough=500 with n in (1000,15000]: every coarsening x relaxation x Krylov method (x side) returns reported < 1e-8 within 100 iterations (+L-1), truthfully; kappa_inf(A) from a certificate verified in long double. "
             "non-trivial: >= 2 iterations and (>= 2 levels or a relaxation-only preconditioner). distinct = distinct decoded choice sequences (64-bit hash), united over shards. "
             "A preconditioner that maps finite vectors to NaN/inf is counted (precond-nonfinite), not asserted. Known-finding region: F-recursion-gap (BiCGStab(L) and IDR(s) runs that perform at least as many matrix-vector products as the numerical grade of (M, r0), M = A B resp. B A, Arnoldi sub-diagonal <= 1e-6: a class of inputs, nothing but the iteration budget is asserted inside; outside it the strict bound applies).",
        assumptions=["Eigen dense LU / eigenvalues are accurate on n <= 400", "long double (64-bit mantissa) residuals are exact relative to the double precision quantities compared",
                     "a breakdown exception (std::runtime_error from amgcl::precondition) means nothing was returned and nothing is claimed; such cases are counted by label",
                     "the constant 200 of the rounding allowance (DESIGN proposed 10) is calibrated: over 1.2e6 cases CG/BiCGStab/GMRES/FGMRES/LGMRES/Richardson stay below 0.004 x it"],
        min_nontrivial=6000,
    ),
}

MANIFEST_TEXT = {
    "C01": dict(
        engine="rapidcheck",
        technique="property-based testing through the runtime interface with an independent long-double residual, dense condition numbers, the extracted preconditioner operator for the conditioning of the call, "
                  "and a verified M-matrix certificate for large model problems",
        level_text="Generated-input search over systems x preconditioner x solver configurations (real, complex and 2x2-block builtin backends). Truthfulness and the iteration bound are executable predicates with a "
                   "kappa-aware rounding allowance; convergence inside the default budget is asserted only on the calibrated model-problem sub-domain M. It cannot decide ill-conditioned systems (kappa > 1e4), "
                   "where reported and true residual are not separable from rounding, nor sizes beyond 15000.",
        level_note="trusted: vf::true_relres / residual_ld (long double), Eigen LU and eigenvalues, the conditioning certificate in props/c01_common.hpp, the known-finding predicates in props/c02_common.hpp",
        design_ref="DESIGN.md section 4, C01",
    ),
}
