"""C15 — solver and preconditioner objects are reusable; calls do not leak state."""
TARGETS = {
    "c15_hist_a": dict(src="props/c15_hist_a.cpp", flavors=["gcc", "asan"], asan_div=10),
    "c15_hist_b": dict(src="props/c15_hist_b.cpp", flavors=["gcc", "asan"], asan_div=10),
    "c15_hist_c": dict(src="props/c15_hist_c.cpp", flavors=["gcc", "asan"], asan_div=10),
    "c15_hist_d": dict(src="props/c15_hist_d.cpp", flavors=["gcc", "asan"], asan_div=10),
}

PROPS = {
    "C15": dict(
        targets=["c15_hist_a", "c15_hist_b", "c15_hist_c", "c15_hist_d"],
        shard_mult={"quick": 4, "thorough": 4},
        level="exploration",
        rule="one tape decodes a system (M-matrices on 9 graph families n<=32, optionally with upwind convection; 2x2-block SPD Kronecker systems; saddle-point systems with "
             "contiguous/interleaved pmask), the configuration of ONE long-lived object (kinds: make_solver<amg>, make_solver<as_preconditioner>, nested make_solver, deflated_solver, "
             "make_solver<cpr>, make_solver<schur_pressure_correction> with inner make_solver objects, make_block_solver; solver in {cg,bicgstab,bicgstabl,gmres,fgmres,lgmres,idrs,richardson} "
             "with tol, maxiter (1,2,3,5,20,100), M, K, L, s, pside, check_after, ns_search, always_reset; 4 coarsenings x 9 relaxations, coarse_enough 2/4/10/3000, direct_coarse, "
             "npre/npost/ncycle/pre_cycles) and a history of 1..10 calls drawn from solve(f,0), solve(f,x0), solve(near guess), solve(A',f,x0) with A' in {2A, row-scaled, other graph}, "
             "precond.apply, apply, amg::rebuild, zero rhs, converged guess, NaN/Inf rhs, solve with hostile A' (cyclic permutation, zero values, singular Laplacian; f random or e_k), "
             "solve(hard) (6 decades of dynamic range); heap fill byte 0x00/0xFF/0xAA/0x55. Model of call i = fresh object (+ last rebuild) executing call i only; bitwise comparison. "
             "LGMRES always_reset=false is generated, compared, counted and excluded (documented exception). "
             "non-trivial: the history contains a failing call (exception, non-finite result, or residual above tol) followed by a normal one (converged solve or finite apply). "
             "distinct = distinct decoded choice sequences (64-bit hash), united over shards.",
        assumptions=[
            "single thread; results of a fresh object are a deterministic function of (matrix, parameters, call arguments)",
            "the converged-guess clause is asserted only when ||f - A x0|| + n u ||(|A||x0|+|f|)|| <= tol ||f|| / 4 (true residual in long double), for unpreconditioned-norm stopping tests "
            "(pside=left measures the preconditioned residual: counted, not asserted), not for check_after=true (documented to iterate once); deflated_solver projects x before it solves, "
            "there only '0 iterations' is asserted",
            "ns_search=true is the documented opt-out of the zero-rhs clause (counted)",
        ],
        min_nontrivial=500,
    ),
}

MANIFEST_TEXT = {
    "C15": dict(
        engine="rapidcheck (own command-history generator; the whole history shrinks as one value)",
        technique="model-based stateful testing: long-lived object vs a freshly constructed object per call, bitwise comparison of (iterations, residual, x | exception); "
                  "poisoned global allocator so that never-written scratch memory differs between old and fresh objects; memcmp of user arrays after every call",
        level_text="Generated-input search over call histories on one object of each of seven object kinds (all eight Krylov solvers, 4 coarsenings x 9 relaxations, CPR, Schur pressure "
                   "correction with nested long-lived inner solvers, deflation, block solver, nested make_solver). Failing calls (too small maxiter, NaN/Inf right-hand sides, breakdown with "
                   "singular / hostile alternative matrices -> 'zero sigma', 'zero M[k,k]', 'Zero rho' exceptions, non-finite results) are followed by normal calls. The model is exact "
                   "(a fresh object), so every mismatch is a real state leak; exploration only, histories of length <= 10, n <= 32, one thread.",
        level_note="trusted: props/c15_common.hpp (history decoder, comparison), determinism of single-threaded amgcl code",
        design_ref="DESIGN.md section 4, C15",
    ),
}
