"""C03 — every coarse level is the (re-scaled) Galerkin product; rebuild keeps it so."""
TARGETS = {
    "c03_galerkin_aggr": dict(src="props/c03_galerkin_aggr.cpp", flavors=["gcc", "asan"], asan_div=10),
    "c03_galerkin_sa": dict(src="props/c03_galerkin_sa.cpp", flavors=["gcc", "asan"], asan_div=10),
    "c03_galerkin_emin": dict(src="props/c03_galerkin_emin.cpp", flavors=["gcc", "asan"], asan_div=10),
    "c03_galerkin_rs": dict(src="props/c03_galerkin_rs.cpp", flavors=["gcc", "asan"], asan_div=10),
    "c03_galerkin_complex": dict(src="props/c03_galerkin_complex.cpp", flavors=["gcc", "asan"], asan_div=10),
    "c03_galerkin_block": dict(src="props/c03_galerkin_block.cpp", flavors=["gcc", "asan"], asan_div=10),
}

PROPS = {
    "C03": dict(
        targets=["c03_galerkin_aggr", "c03_galerkin_sa", "c03_galerkin_emin", "c03_galerkin_rs", "c03_galerkin_complex", "c03_galerkin_block"],
        level="exploration",
        rule="histories: a tape-decoded hierarchy amg<builtin, recording<C>, Relax> for C in {aggregation, smoothed_aggregation, smoothed_aggr_emin, ruge_stuben} x Relax in {spai0, damped_jacobi, "
             "gauss_seidel, ilu0} on matrices from vf::gen_graph (n up to 200) with M-matrix / convection-diffusion / diagonally dominant mixed-sign value families (real and integer valued, "
             "optionally structurally non-symmetric, optionally with unsorted input rows, block_size 2 and 0..2 near-null-space vectors for the aggregation family), random coarsening parameters "
             "(eps_strong, over_interp, relax, spectral radius estimate, truncation), coarse_enough, max_levels, direct_coarse, npre/npost/ncycle/pre_cycles, followed by up to 8 commands from "
             "{apply(v), rebuild(perturbed values), rebuild(2^k A), rebuild(original), rebuild(other pattern, same n)} with a freshly allocated matrix; half of the histories are zero-copy "
             "(hierarchy built from a shared_ptr<crs>, rows sorted) and additionally draw {change the values of the installed system matrix in place (damped off-diagonals / 2^k / original values) and "
             "call rebuild() with that same shared_ptr}; run under 1 OpenMP thread (spgemm_saad) and 17 threads (spgemm_rmerge). "
             "Value types with a non-trivial entrywise adjoint (c03_galerkin_complex / c03_galerkin_block): std::complex<double> (Hermitian positive definite, Gaussian-integer Hermitian and general "
             "complex diagonally dominant matrices; aggregation, smoothed_aggregation, smoothed_aggr_emin) and static_matrix<double,2,2> blocks (block-symmetric and general block matrices with "
             "non-symmetric blocks; aggregation, smoothed_aggregation) x {spai0, damped_jacobi, gauss_seidel}, n up to 120, up to 5 commands, same oracles with R == P^H / blockwise transpose and a "
             "scalar-expanded long-double-complex reference product. "
             "non-trivial: the hierarchy has >=2 levels, pre_cycles>=1, and the history contains a rebuild with a changed matrix followed by an apply (value-type TUs: >=2 levels and a prolongation "
             "that carries entries which are not self-adjoint). "
             "distinct = distinct decoded choice sequences (64-bit hash), united over shards.",
        assumptions=["long double sparse triple product with the scale sum|r||a||p| is the reference for the Galerkin operator; tolerance 4(terms+4)u per entry (8(terms+4)u on the scalar-expanded complex / block product)",
                     "the over-interpolation factor is applied in single precision (float parameter; scaled_galerkin takes float 1/over_interp), the reference mirrors that factor",
                     "a 'fresh hierarchy assembled from A' with those operators' is amg<builtin, replaying, Relax>(A') with the same amg parameters, using amgcl's own (scaled_)galerkin as coarse operator",
                     "bitwise comparison of apply() outputs is made inside one process at one OpenMP thread count (also at 17 threads: both hierarchies use the same SpGEMM algorithm and static schedules)"],
        min_nontrivial=600,
    ),
}

MANIFEST_TEXT = {
    "C03": dict(
        engine="rapidcheck (history / state-machine style: whole command list generated and shrunk as one tape)",
        technique="model-based testing of amg::rebuild against a fresh hierarchy built by a replaying coarsening policy, plus per-level algebraic oracles on what a recording coarsening policy "
                  "and the AMGCL_VERIF friend accessor observe (A_c == R*A*P in long double with a rounding bound, R == adjoint(P) bitwise, level sizes, direct solver / smoother placement)",
        level_text="Generated-input search over matrices, configurations and rebuild histories. The hierarchy is observed through the documented extension point (coarsening policy template argument) and "
                   "cross-checked through the friend accessor; the model of rebuild is a fresh object, compared bitwise. This is the right level because the property quantifies over histories and the "
                   "model is cheap and exact; it cannot show absence beyond the explored sizes (n<=200, <=8 commands).",
        level_note="trusted: props/c03_record.hpp (recording/replaying policies), the long double triple product in props/c03_galerkin.hpp, amgcl's galerkin()/scaled_galerkin() inside the model hierarchy",
        design_ref="DESIGN.md section 4, C03 and section 3.4/3.5",
    ),
}
