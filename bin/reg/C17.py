"""C17 — matrix adapters preserve the operator; input row order does not matter."""
import hashlib as _hl, os as _os

def _hh(*names):
    """content hash of helper headers: part of the compile flags, so the build cache notices edits to them"""
    root = _os.path.dirname(_os.path.dirname(_os.path.dirname(_os.path.abspath(__file__))))
    h = _hl.sha256()
    for n in names:
        with open(_os.path.join(root, "props", n), "rb") as f:
            h.update(f.read())
    return "-DVF_HELPER_HASH=0x" + h.hexdigest()[:12]

TARGETS = {
    "c17_adapters": dict(src="props/c17_adapters.cpp", flags=[_hh("c17_common.hpp", "c17_block2.hpp")], flavors=["gcc", "asan"], asan_div=4),
    "c17_compose": dict(src="props/c17_compose.cpp", flags=[_hh("c17_common.hpp", "c17_block2.hpp", "c13_common.hpp")], flavors=["gcc", "asan"], asan_div=4),
    "c17_roworder_amg": dict(src="props/c17_roworder_amg.cpp", flags=[_hh("c17_common.hpp", "c17_roworder.hpp")], flavors=["gcc", "asan"], asan_div=6),
    "c17_roworder_cpr": dict(src="props/c17_roworder_cpr.cpp", flags=[_hh("c17_common.hpp", "c17_roworder.hpp", "c13_common.hpp")], flavors=["gcc", "asan"], asan_div=6),
}

PROPS = {
    "C17": dict(
        targets=["c17_adapters", "c17_compose", "c17_roworder_amg", "c17_roworder_cpr"],
        shard_mult={"thorough": 6},
        level="exploration",
        rule="tape-decoded matrices: random sparse (square/rectangular, empty rows, explicit zeros, sorted or shuffled rows), SPD M-matrices and general-valued matrices on the graph families "
             "path/grid2/grid2x9/grid3/er/tree/band/star/union/diag (optionally structurally non-symmetric, rows optionally shuffled). Adapters: tuples of std::vector / amgcl::iterator_range over raw "
             "pointers / boost::iterator_range with index types int, long, unsigned, size_t, ptrdiff_t (and mixed), crs with the same index types, zero_copy (8-byte index types) and zero_copy_direct "
             "(any), Eigen::SparseMatrix<RowMajor,int|ptrdiff_t>, Eigen::Map, uBlas compressed_matrix through backend::map, adapter::make_matrix row builder, adapter::block_matrix<2x2>, shared crs: "
             "rows/cols/nonzeros, per-row (col,val) sequence (multiset for formats that sort), SpMV (long double reference, bound 2(m+3)u sum|a||x|) and the crs copy are compared with the source; zero-copy: "
             "pointer identity, user arrays on exact-size heap blocks memcmp-unchanged after all amgcl objects (incl. amg / make_solver built from the shared_ptr) are destroyed (ASan twin). "
             "Row-iterator protocol: for every adapter reachable through backend::row_begin (all tuple forms, crs, zero-copy crs, row builder, uBlas map, Eigen SparseMatrix / Map, reordered_matrix, "
             "scaled_matrix, block_matrix) three row iterators (tape-chosen rows, repeats allowed) are opened at once and advanced in a tape-chosen interleaved order; every (col,value) sequence must "
             "equal the reference row. Compositions: block_matrix<2x2> over tuple<vector>, tuple<iterator_range<int*>>, zero_copy crs, make_matrix(row builder) and scaled_matrix(tuple) -- entries "
             "exactly the block form of the reference, interleaved block-row iterators, SpMV of the crs<2x2> copy; block_matrix(make_matrix(builder)) + amg<2x2> + BiCGStab set up and solved through the "
             "composed adapter with the true residual of the scalar system; reorder<>(block_matrix(tuple)) (examples/solver.cpp) entry check -- currently excluded as known finding F-block-iterator-copy. "
             "make_solver(shared_ptr) with amg and with as_preconditioner<spai0>: system_matrix_ptr() is the very object passed in and its ptr/col/val alias the user's arrays; after an in-place update of the "
             "user's values (diagonal x1.25) the two-argument solve is judged by the true residual of the UPDATED matrix. reorder_long: chains n=257..1200, strips 2-3 x 257..400 and 250..400 small components "
             "(natural / reversed / rotated numbering; non-trivial = >=256 breadth-first levels incl. restarts) through the same reorder oracles. "
             "reorder<CM / reverse CM>: permutation validity, B(i,j)=A(perm i,perm j) bitwise, forward/inverse/view, solution mapped back solves the original system (true residual, long double). "
             "scale_diagonal: entries s_i a_ij s_j within 8u, unit diagonal, both documented rhs options, post-scaled solution solves the original system in the scaled norm and (times cond(S)) in the 2-norm. "
             "Row order: preconditioner built from tape-shuffled rows vs built from sorted rows, apply() bitwise equal on 3 vectors at 1 thread, for amg over all 4 coarsenings x 9 relaxations (runtime interface, "
             "coarse_enough 2/8/3000), as_preconditioner over 9 relaxations, amg::rebuild(shuffled A') vs rebuild(sorted A') on two allow_rebuild hierarchies (same 4x9 space, gauss_seidel and the ILU family weighted up), make_solver (amg+cg, amg+bicgstab, relaxation+bicgstab; whole solve bitwise incl. iteration count), cpr / cpr_drs::partial_update(A' shuffled, update_transfer_ops true/false; A'=A or new values) on the object built from "
             "shuffled rows vs the sorted twin, cpr, cpr_drs, "
             "schur_pressure_correction (inner solvers = one preconditioner application) on cell-structured systems b=2..4. "
             "non-trivial: at least one row with >=3 entries stored out of ascending column order (adapters: plus nnz>n; reorder/scale: n>=3 resp. badly scaled). "
             "distinct = distinct decoded choice sequences (64-bit hash), united over shards.",
        assumptions=["long double products/residuals act as reference for double computations",
                     "1 OpenMP thread: library results are deterministic, so bitwise comparison of two constructions is meaningful",
                     "for matrices without stored entries col_data()/val_data() of the tuple adapter are only required to be callable without undefined behaviour (no pointer identity)"],
        min_nontrivial=500,
    ),
}

MANIFEST_TEXT = {
    "C17": dict(
        engine="rapidcheck (+ ASan/UBSan twin for the zero-copy ownership clauses)",
        technique="differential property-based testing: every adapter against the source CSR arrays (entries, SpMV with a rounding bound, pointer identity), metamorphic testing of preconditioners under "
                  "permutation of the entries inside each row (bitwise), round-trip checks of reorder / scale adapters with an independent true residual",
        level_text="Generated-input search over matrices from all families handed to the library through every adapter the property names, with index types int/long/unsigned/size_t/ptrdiff_t. "
                   "Operator identity is checked entry-wise (bitwise) and by SpMV against a long-double reference; zero-copy adapters are checked for pointer identity and untouched, still-owned user memory "
                   "under AddressSanitizer; reorder and diagonal-scaling round trips are judged by the true residual of the ORIGINAL system; row-order independence is a metamorphic relation (shuffle the "
                   "entries of each row) with a bitwise oracle for every preconditioner class that accepts a user matrix. Right level: universally quantified equivalences with cheap exact oracles; nothing is "
                   "claimed beyond the explored sizes (n<=600) and the listed adapter / index-type combinations (Epetra, VexCL etc. are not installable offline).",
        level_note="trusted: the long-double reference, vf::shuffle_rows/sorted_copy, determinism of the library at one OpenMP thread",
        design_ref="DESIGN.md section 4, C17; section 5 #7",
    ),
}
