"""C05 — each Krylov method produces its defining iterates."""
TARGETS = {
    "c05_krylov_real": dict(src="props/c05_krylov_real.cpp", flavors=["gcc", "asan"], asan_div=8),
    "c05_krylov_complex": dict(src="props/c05_krylov_complex.cpp", flavors=["gcc", "asan"], asan_div=8),
    "c05_fterm_real": dict(src="props/c05_fterm_real.cpp", flavors=["gcc", "asan"], asan_div=8),
    "c05_fterm_complex": dict(src="props/c05_fterm_complex.cpp", flavors=["gcc", "asan"], asan_div=8),
}

PROPS = {
    "C05": dict(
        targets=["c05_krylov_real", "c05_krylov_complex", "c05_fterm_real", "c05_fterm_complex"],
        shard_mult={"quick": 4, "thorough": 6},
        level="exploration",
        rule="tape-decoded systems n<=40 (graph patterns path/grid/er/tree/band/star/union/diagonal and dense n<=8; Hermitian positive definite, general incl. structurally "
             "non-symmetric and indefinite, complex with non-real diagonal; kappa_2 driven constructively to a log-uniform target <=95 and measured with Eigen), preconditioner in "
             "{amgcl dummy, exact dense inverse, Jacobi, random SPD/HPD dense M} applied through a user-defined preconditioner class, non-zero x0, maxiter=k for k=1..min(n,40) with tol=abstol=0, "
             "restart M in {1,2,4,40}, LGMRES(M,K) with K in 0..3 for k up to 3(M+K)+1 (three cycles, augmentation vectors in use), both sides, BiCGStab(L) L in {1,2,4}, IDR(s) s in 1..min(8,n), thread count 1. "
             "non-trivial (iterate props): at least two iterates k>=1 were compared decisively (tolerance < 1e-6 |x_k-x_0|) with the long-double textbook reference and the iterate moved away from x0; "
             "non-trivial (finite termination): n>=2, the solver needed >=2 iterations and the initial relative residual is >1e-6. distinct = distinct decoded choice sequences (64-bit hash), united over shards.",
        assumptions=["the textbook reference solvers in props/c05_refsolvers.hpp (long double) are correct",
                     "Eigen's dense QR / eigenvalue / SVD routines are accurate on n<=40 matrices",
                     "the divergence between the reference recurrence run in double and in long double measures the rounding sensitivity of an iterate (used as part of the tolerance, iterates are compared only while it stays below 1e-12 relative)",
                     "finite termination of BiCGStab, BiCGStab(L), IDR(s) is asserted on matrices with positive definite Hermitian part (mu>=0.1) only, with 2 extra iterations (one sweep for BiCGStab(L)) in double precision and on the library templates instantiated for long double; CG with 2+n/8 extra iterations in double and the exact bound in long double",
                     "known finding F-recursion-gap-c05 (class: bicgstabl/idrs with 64 u kappa2(A) kappa2(M) max(1,|r0|/|f|) > 1e-10): inside the class the clause is asserted for the attainable tolerance max(1e-10, 4x that level) instead"],
        min_nontrivial=400,
        timeout=dict(quick=900, thorough=4 * 3600),
    ),
}

MANIFEST_TEXT = {
    "C05": dict(
        engine="rapidcheck",
        technique="property-based testing of make_solver<Precond, Solver> with maxiter=k against independent long-double textbook reference solvers (CG, BiCGStab, GMRES(M), FGMRES(M), dense LGMRES(M,K), Richardson), "
                  "dense least-squares optimality oracles (Eigen, long double) for CG / GMRES / FGMRES / LGMRES, and finite-termination runs of all eight methods (also on the library templates instantiated for long double)",
        level_text="Generated-input search over small well-conditioned real and complex systems, every iteration index k up to the subspace size, restart lengths, sides and preconditioners; "
                   "each k-th iterate is compared with a reference implementation written from the textbook recurrences, and optimality is decided by dense least squares. "
                   "This is the right level because the property quantifies over all inputs and iteration indices and has an independent executable oracle; it cannot show absence beyond the explored sizes and conditioning.",
        level_note="trusted: props/c05_refsolvers.hpp, Eigen dense factorizations, long double arithmetic; tolerance = 64 u kappa2(A) kappa2(M) (k+1) max|x_j| (x8 complex) + 1e4 x measured double-vs-long-double divergence of the reference recurrence",
        design_ref="DESIGN.md section 4, C05",
    ),
}
