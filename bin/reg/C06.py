"""C06 — every relaxation sweep equals its mathematical definition."""
TARGETS = {
    "c06_point": dict(src="props/c06_point.cpp", flavors=["gcc", "asan"], asan_div=6),
    "c06_ilu": dict(src="props/c06_ilu.cpp", flavors=["gcc", "asan"], asan_div=6),
}

PROPS = {
    "C06": dict(
        targets=["c06_point", "c06_ilu"],
        shard_mult={"quick": 4, "thorough": 6},
        level="exploration",
        rule="tape-decoded square matrices with structurally present invertible diagonal on graph patterns (path/grid/er/tree/band/star/union/diagonal, n<=60 scalar unknowns), "
             "values M-matrix like / mixed signs or phases / small integers, strictly (block) diagonally dominant (ILU family, SPAI-1) or general non-dominant (Jacobi, Gauss-Seidel, SPAI-0, Chebyshev), "
             "structurally non-symmetric with probability 1/2 (each a_ij dropped independently), double / complex (non-real diagonal) / 2x2 static_matrix block values where relaxation_is_supported; "
             "tridiagonal and arrow matrices; A := L D U from small integers and powers of two for bitwise ILU recovery; relaxation parameters from the tape; thread counts 1 and 4/5/8 for the level-scheduled "
             "Gauss-Seidel sweep and sparse triangular solves. non-trivial: >=2 rows with off-diagonal entries (point smoothers, parallel solves), >=1 fill position of the exact LU factorisation (ILU props), n>=3 (special / exact families). "
             "distinct = distinct decoded choice sequences (64-bit hash), united over shards.",
        assumptions=["dense long-double reference algebra in props/c06_common.hpp (Gauss-Jordan inverse, substitution) is correct",
                     "Eigen's symmetric eigen-decomposition is accurate on n<=40 matrices (Chebyshev eigen-component check only)",
                     "for Chebyshev with power_iters>0 the spectrum bound is taken from backend::spectral_radius itself (seeded random start vector); its bounds are the subject of C08",
                     "the friend accessor reads the factors of the SERIAL triangular solver; they are tied to the public interface by (L U) apply(e_j) = e_j"],
        min_nontrivial=400,
        timeout=dict(quick=900, thorough=4 * 3600),
    ),
}

MANIFEST_TEXT = {
    "C06": dict(
        engine="rapidcheck",
        technique="property-based testing of every relaxation class (constructed directly, public apply_pre/apply_post/apply) against dense long-double definitions: splitting operators, row-wise least-squares normal equations, "
                  "Chebyshev polynomial in matrix and eigen-component form, (L U)_ij = a_ij on the admitted pattern, bitwise recovery of exactly representable L D U factors, level-scheduled vs serial sweeps / triangular solves",
        level_text="Generated-input search over small matrices of all value types and structural families with an independent dense oracle per smoother; bitwise where arithmetic is exact (integer L D U factors, "
                   "parallel vs serial Gauss-Seidel), componentwise rounding bounds c u s_i elsewhere. This is the right level because each smoother has a closed-form definition that can be evaluated densely on small cases; "
                   "it cannot show absence beyond the explored sizes.",
        level_note="trusted: props/c06_common.hpp dense algebra, Eigen (one sub-check), exactness of double arithmetic on small integers and powers of two; tolerance c u s_i with s = |x| + |M^-1|(|f| + |A||x| + |A||x'|), c = 8(N+8)..16(N+8)",
        design_ref="DESIGN.md section 4, C06",
    ),
}
