"""C13 — block, complex and mixed-precision formulations solve the same system."""
import hashlib as _hl, os as _os

def _hh(*names):
    """content hash of helper headers: part of the compile flags, so the build cache notices edits to props/c13_common.hpp"""
    root = _os.path.dirname(_os.path.dirname(_os.path.dirname(_os.path.abspath(__file__))))
    h = _hl.sha256()
    for n in names:
        with open(_os.path.join(root, "props", n), "rb") as f:
            h.update(f.read())
    return "-DVF_HELPER_HASH=0x" + h.hexdigest()[:12]

_H = _hh("c13_common.hpp")

TARGETS = {
    "c13_block2": dict(src="props/c13_block.cpp", flags=["-DC13_B=2", _H], flavors=["gcc", "asan"], asan_div=5),
    "c13_block3": dict(src="props/c13_block.cpp", flags=["-DC13_B=3", _H], flavors=["gcc", "asan"], asan_div=5),
    "c13_block4": dict(src="props/c13_block.cpp", flags=["-DC13_B=4", _H], flavors=["gcc", "asan"], asan_div=5),
    "c13_eigen": dict(src="props/c13_eigen.cpp", flags=[_H], flavors=["gcc", "asan"], asan_div=5),
    "c13_complex": dict(src="props/c13_complex.cpp", flags=[_H], flavors=["gcc", "asan"], asan_div=5),
    "c13_mixed": dict(src="props/c13_mixed.cpp", flags=[_H], flavors=["gcc", "asan"], asan_div=5),
}

PROPS = {
    "C13": dict(
        targets=["c13_block2", "c13_block3", "c13_block4", "c13_eigen", "c13_complex", "c13_mixed"],
        shard_mult={"quick": 3, "thorough": 3},
        level="exploration",
        rule="tape-decoded systems. Block part (b=2,3,4; static_matrix and Eigen blocks): graph families path/grid2/grid2x9/grid3/er/tree/band/star/union with an SPD "
             "M-matrix M (contrast<=10) expanded as M (x) I_b, M (x) B (B SPD, optionally with structural zeros), a symmetric strictly diagonally dominant block-structured "
             "M-matrix whose off-diagonal blocks carry random structural masks (kind 2), or the same with entries of both signs (kind 3: not a model problem, only truthfulness is asserted); a 'Zero rho/omega in BiCGStab' exception is a clean breakdown report and accepted (labelled) "
             "on every input; every representation (adapter::block_matrix, crs<block>, block-valued tuple, unblock_matrix, "
             "builtin_hybrid::copy_matrix, level-0 matrix of the hierarchies) is compared entry by entry (bitwise) and by SpMV (long double reference, bound c*u*sum|a||x|) with the "
             "scalar matrix; six formulations (block value type via adapter / via block tuple, make_block_solver 2- and 3-argument, coarsening::as_scalar, builtin_hybrid, "
             "relaxation::as_block) are solved, the 3-argument forms (block adapter + amg<block>, make_block_solver, builtin_hybrid) additionally with a matrix A1 that differs from the setup matrix (2A, or diagonal +10..50% and off-diagonals x0.6..1), and the true residual of the SCALAR system (long double) is compared with the reported one (two-sided, drift allowance "
             "8(m+4)(k+1)u*||A||inf*||x||inf*sqrt(n)/||f||) and, on the model kinds 0-2, with the tolerance (1e-8 / 1e-6, maxiter 1000). Eigen vs static_matrix (b=2,3) on model block cases made non-symmetric (off-diagonal entries scaled by independent factors in [0.5,1], skew part in every diagonal block): math::adjoint and "
             "backend::transpose of crs<Eigen block> entry-exact against the scalar transpose; amg<Eigen block> and amg<static_matrix> (SA, eps_strong=0, spai0) have the same level table and apply() agrees within "
             "1000*u*n on 3 vectors; the Eigen solve is truthful on the scalar system and converges on the model kinds. Complex part: Hermitian PD (M-pattern + i*skew), shifted (Mmat + i*sigma*I, |sigma| <= min a_ii) and Hermitian+imaginary-diagonal (|Im a_ii| <= Re a_ii) "
             "systems: adapter::complex_matrix entries = [re -im; im re] bitwise, SpMV on complex_range views, builtin<complex> solution (CG on the Hermitian kind, GMRES, or BiCGStab -- the latter without a convergence requirement) vs real-equivalent solution "
             "(BiCGStab on adapter::complex_matrix with 2x2 point aggregates; both truthful on the complex system, difference <= kappa_2*(2 tol + drift)). Mixed precision: amg<builtin<float>> under cg/bicgstab<builtin<double>> with default tol 1e-8, called solve(A_double,f,x), on "
             "model problems (isotropic grids, bounded-degree graphs, contrast<=10, n<=3600, coarse_enough 3000/500/100); the two-argument form (double Krylov method iterating on the float copy fl(A) held by "
             "the preconditioner; default tol and a generated tighter one, 1e-10/1e-12) must report a residual that is truthful for fl(A) -- recomputed in long double from the exactly converted float values, "
             "allowance = double-precision drift bound; kernels: backend::spmv/residual with crs<float> / tuple<float values> and double vectors vs long double reference with bound c*2^-53*sum|a||x|; the same for "
             "float BLOCK matrices (kernels and amg<float 2x2>+cg<double 2x2> two-argument solve) is excluded as known finding F-float-block-times-double. "
             "non-trivial: block case with at least one structurally incomplete block and >=2 block rows; complex case with non-zero imaginary diagonal and n>=2; mixed case with n>=2 and an off-diagonal. "
             "distinct = distinct decoded choice sequences (64-bit hash), united over shards.",
        assumptions=["long double (64-bit mantissa) residuals and products are exact enough to act as reference for double computations",
                     "Eigen JacobiSVD singular values of n<=60 complex matrices are accurate to 1e-10 relative",
                     "drift of the recursively updated Krylov residual is bounded by 8(m+4)(k+1)u||A||inf||x||inf sqrt(n) (x0=0, kappa<=1e4 by construction)"],
        min_nontrivial=300,
    ),
}

MANIFEST_TEXT = {
    "C13": dict(
        engine="rapidcheck",
        technique="differential property-based testing: every block / complex / mixed-precision formulation against the scalar (resp. complex) CSR arrays with an independent long-double residual and product",
        level_text="Generated-input search over block-structured SPD systems (b=2,3,4, Kronecker and randomly masked blocks), complex Hermitian / shifted systems and model problems for mixed precision. "
                   "Representations are compared entry-wise (bitwise) and by SpMV with a stated rounding bound; each of the wrappers named in the property (block value type with static_matrix and Eigen blocks, "
                   "adapter::block_matrix, make_block_solver, relaxation::as_block, coarsening::as_scalar, builtin_hybrid, adapter::complex_matrix/complex_range, float preconditioner under a double solver) "
                   "is run and its solution checked against the scalar system with a true residual computed outside the library. This is the right level because the claim is a functional equivalence over an "
                   "unbounded input space with a cheap independent oracle; it shows nothing beyond the explored sizes (n<=3600) and condition numbers (<=1e4).",
        level_note="trusted: the long-double reference in props/c13_common.hpp and common/dense.hpp, Eigen's SVD for kappa_2, the stated drift bound for recursively updated residuals",
        design_ref="DESIGN.md section 4, C13",
    ),
}
