"""C08 — sparse kernels."""
TARGETS = {
    "c08_kernels": dict(src="props/c08_kernels.cpp", flavors=["gcc", "asan", "fuzz"], asan_div=8),
}

PROPS = {
    "C08": dict(
        targets=["c08_kernels"],
        fuzz=[dict(target="c08_kernels", prop="spgemm_double", quick_runs=15000, thorough_runs=1000000, thorough_jobs=4, max_len=2048),
              dict(target="c08_kernels", prop="pointwise", quick_runs=15000, thorough_runs=1000000, thorough_jobs=2, max_len=2048)],
        level="exploration",
        rule="tape-decoded random sparse operands (shapes 0..300, empty rows/cols, sorted and unsorted rows, double/complex/2x2,3x3 real block and 2x2 complex block values, "
             "small-integer values so that every kernel operation is exact) compared bitwise with a dense reference; exhaustive pattern pairs up to 3x3 (4x3*3x4 thorough); "
             "thread counts 1/4/17 (17 selects the row-merge SpGEMM). non-trivial: both operands have >=2 stored entries and the result has an accumulated entry "
             "(spgemm/sum: overlapping contributions; pointwise: block size>=2 with >=2 blocks in a row; sort: a row actually out of order; transpose: rectangular). "
             "distinct = distinct decoded choice sequences (64-bit hash), united over shards.",
        assumptions=["dense reference arithmetic on small integers is exact in double", "Eigen's eigen/singular values are accurate to 1e-10 relative on n<=40 matrices"],
        min_nontrivial=200,
    ),
}

MANIFEST_TEXT = {
    "C08": dict(
        engine="rapidcheck + enumerators + libFuzzer",
        technique="property-based testing against an exact dense reference (bitwise, integer-valued operands), exhaustive small-scope pattern enumeration, coverage-guided fuzzing under ASan/UBSan",
        level_text="Generated-input search: every public sparse kernel (spgemm_saad, spgemm_rmerge, product at 1/4/17 threads, transpose, sum, scale, sort_rows, diagonal, pointwise_matrix, "
                   "crs copy/convert constructors, spectral_radius) is compared with an independent dense definition on exactly representable values, so agreement is bitwise; all pattern pairs up to 3x3 "
                   "are enumerated. This is the right level because the property is a universally quantified functional equivalence with a cheap exact oracle; it cannot show absence beyond the explored sizes.",
        level_note="trusted: the dense reference in common/dense.hpp and props/c08_kernels.cpp, Eigen for eigen/singular values, exactness of double arithmetic on small integers",
        design_ref="DESIGN.md section 4, C08",
    ),
}
