"""C10 — outputs are a function of the inputs only; no memory errors on valid input."""
TARGETS = {
    "c10_determinism": dict(src="props/c10_determinism.cpp", flavors=["gcc", "asan", "fuzz"], asan_div=3),
}
PROPS = {
    "C10": dict(
        targets=["c10_determinism"],
        fuzz=[dict(target="c10_determinism", prop="determinism", quick_runs=15000, thorough_runs=600000, thorough_jobs=8, max_len=1024)],
        level="exploration",
        rule="tape-decoded systems with the degenerate classes generated on purpose (1x1, diagonal, disconnected unions, rows with only positive off-diagonals, "
             "coarse_enough in {0,1,2,5,20,3000}, max_levels in {1,2,3,100}, near-null-space wider than an aggregate) x 4 coarsenings x 9 relaxations x 8 solvers "
             "(runtime interface) and single-level relaxation preconditioners. gcc build: global operator new replaced so that fresh memory is filled with 0x00/0xFF/0xAA/random bytes "
             "and the case is re-run after a generated allocation pre-history; hierarchy matrices (friend accessor), two preconditioner applications and two solves (or the exception text) "
             "must be bitwise identical across all fills. asan build and libFuzzer campaign: same cases under ASan+UBSan+LSan (leak check after every case). "
             "non-trivial: a degenerate class is hit or a multi-level hierarchy is built. distinct = distinct decoded choice sequences.",
        assumptions=["heap contents are modelled by four fill patterns and two allocation histories per case", "single-threaded runs (thread-count effects are C09)",
                     "aligned operator new overloads are not replaced (the library does not use them)"],
        min_nontrivial=500,
    ),
}
MANIFEST_TEXT = {
    "C10": dict(
        engine="rapidcheck + poisoned allocator + ASan/UBSan/LSan twin + libFuzzer",
        technique="differential testing of one input against itself under different heap contents and allocation histories (bitwise), and sanitizer-instrumented property-based / coverage-guided fuzzing over generated degenerate inputs",
        level_text="Generated-input search over valid and degenerate systems and the whole runtime configuration space; a dependence on uninitialised memory shows up as a bitwise difference between fills, "
                   "a memory error as a sanitizer report attributed to the generating case. It cannot show absence; stack reads are only visible through ASan/UBSan.",
        level_note="trusted: the replaced global operator new (common/poison.hpp), sanitizer runtimes of clang 14",
        design_ref="DESIGN.md section 3.6 and section 4, C10",
    ),
}
