"""C10 — outputs are a function of the inputs only; no memory errors on valid input."""
TARGETS = {
    "c10_determinism": dict(src="props/c10_determinism.cpp", flavors=["gcc", "asan", "fuzz"], asan_div=3),
    # extension to "any preconditioner or solver" (shared machinery: props/c10_common.hpp, hashed into the build key by bin/check)
    "c10_complex": dict(src="props/c10_complex.cpp", flavors=["gcc", "asan"], asan_div=5),
    "c10_block2": dict(src="props/c10_block.cpp", flags=["-DC10_B=2"], flavors=["gcc", "asan"], asan_div=5),
    "c10_block3": dict(src="props/c10_block.cpp", flags=["-DC10_B=3"], flavors=["gcc", "asan"], asan_div=5),
    "c10_adapters": dict(src="props/c10_adapters.cpp", flavors=["gcc", "asan"], asan_div=5),
    "c10_composite": dict(src="props/c10_composite.cpp", flavors=["gcc", "asan"], asan_div=5),
}
PROPS = {
    "C10": dict(
        targets=["c10_determinism", "c10_complex", "c10_block2", "c10_block3", "c10_adapters", "c10_composite"],
        fuzz=[dict(target="c10_determinism", prop="determinism", quick_runs=15000, thorough_runs=300000, thorough_jobs=8, max_len=1024)],
        level="exploration",
        rule="tape-decoded systems with the degenerate classes generated on purpose (1x1, diagonal, disconnected unions, rows with only positive off-diagonals, "
             "coarse_enough in {0,1,2,5,20,3000}, max_levels in {1,2,3,100}, near-null-space wider than an aggregate) x 4 coarsenings x 9 relaxations x 8 solvers "
             "(runtime interface) and single-level relaxation preconditioners. gcc build: global operator new replaced so that fresh memory is filled with 0x00/0xFF/0xAA/random bytes "
             "and the case is re-run after a generated allocation pre-history; hierarchy matrices (friend accessor), two preconditioner applications and two solves (or the exception text) "
             "must be bitwise identical across all fills. asan build and libFuzzer campaign: same cases under ASan+UBSan+LSan (leak check after every case). "
             "Extension targets (same differential, same sanitizer twin with a leak check per case, n <= 64 scalar unknowns, maxiter <= 25, 9 solvers incl. preonly, solver options pside/ns_search/"
             "IDR(s) s<=n/LGMRES K and always_reset, relaxation options; W-cycles only with max_levels <= 3, depth capped at 3 when nullspace.cols >= 2; additionally the printed summary (operator<<) and a "
             "repeated preconditioner application are compared): "
             "c10_complex = builtin<complex<double>>, strictly diagonally dominant complex systems (negative real / random-phase / Hermitian / positive real off-diagonals, complex diagonal shift), "
             "all 4 coarsenings (ruge_stuben is rejected for complex values: the exception text is the compared outcome) x 9 relaxations x 9 solvers, near-null-space; "
             "c10_block2 / c10_block3 = builtin<static_matrix<double,B,B>> with rhs static_matrix<double,B,1>, block systems whose scalar expansion is strictly row diagonally dominant with "
             "structurally incomplete blocks, classes 1x1 / block-diagonal / disconnected / graph, handed over as block-valued tuple, through adapter::block_matrix over the scalar arrays, or through "
             "make_block_solver with scalar right-hand sides; ruge_stuben and spai1 are rejected for block values (compared exception), near-null-space goes through coarsening::as_scalar "
             "(cols a multiple of B, one in eight not: clean rejection); "
             "c10_adapters = double through adapter::zero_copy (shared_ptr used without copy, or by reference), zero_copy_direct (ptrdiff_t shared / int by reference), adapter::reorder<cuthill_mckee<false|true>>, "
             "scale_diagonal/scaled_problem (rhs copy or in place), a shared_ptr<crs> owning its arrays, amg::rebuild (tuple or shared_ptr second matrix, allow_rebuild true and now and then false), "
             "pointwise aggregation (aggr.block_size); rows shuffled where the entry point copies and sorts, sorted where the matrix is used in place; the user's exact-size heap arrays must be bit-identical "
             "after every library object is destroyed and are freed afterwards (a wrong own_data flag is a double free); "
             "c10_composite = double, runtime::preconditioner classes dummy / nested (make_solver as preconditioner, two levels of nesting) / amg / relaxation, schur_pressure_correction (pmask as raw array, "
             "'%s:m', '<m', '>m' with at least one pressure and one flow unknown; type 1/2, approx_schur, adjust_p 0/1/2, simplec_dia; inner make_solver<runtime::preconditioner, runtime solver> with <= 4 iterations), "
             "cpr and cpr_drs (block_size 2..3, n = block_size x cells, active_rows < n in 1/6, eps_dd/eps_ps/weights array; pressure amg x global relaxation chosen at run time), deflated_solver "
             "(SPD M-matrix, 1..4 weighted subdomain indicator vectors); hierarchies are private there: printed summary, applications, solves and exception texts are compared, user-owned pmask / weights / "
             "deflation / near-null-space arrays must stay bit-identical. "
             "non-trivial: a degenerate class is hit or a multi-level hierarchy is built (observed through the friend accessor or the printed number of levels); for c10_composite also a composite with a "
             "non-empty two-sided split (schur: couplings in both directions; cpr: >= 2 coupled cells; deflated: n > nvec; nested/dummy: n >= 2 with an off-diagonal). distinct = distinct decoded choice sequences.",
        assumptions=["heap contents are modelled by four fill patterns and two allocation histories per case", "single-threaded runs (thread-count effects are C09)",
                     "aligned operator new overloads are not replaced (the library does not use them)",
                     "hierarchy matrices are compared where an amg object is reachable (make_solver::precond()); behind schur_pressure_correction, cpr, cpr_drs, runtime::preconditioner and make_block_solver "
                     "only the printed summary and the action of the operators are observed"],
        min_nontrivial=500,
    ),
}
MANIFEST_TEXT = {
    "C10": dict(
        engine="rapidcheck + poisoned allocator + ASan/UBSan/LSan twin + libFuzzer",
        technique="differential testing of one input against itself under different heap contents and allocation histories (bitwise), and sanitizer-instrumented property-based / coverage-guided fuzzing over generated degenerate inputs",
        level_text="Generated-input search over valid and degenerate systems and the whole runtime configuration space; a dependence on uninitialised memory shows up as a bitwise difference between fills, "
                   "a memory error as a sanitizer report attributed to the generating case. The same differential and sanitizer twin are instantiated for complex values, 2x2 and 3x3 block values "
                   "(block tuple, adapter::block_matrix, make_block_solver), the zero-copy / reorder / scaled-problem / shared_ptr / rebuild entry points (with an ownership check of the user's arrays) "
                   "and the composite preconditioners (runtime::preconditioner dummy/nested, schur_pressure_correction, cpr, cpr_drs, deflated_solver). "
                   "It cannot show absence; stack reads are only visible through ASan/UBSan; the libFuzzer campaign covers the scalar runtime harness only.",
        level_note="trusted: the replaced global operator new (common/poison.hpp), sanitizer runtimes of clang 14, props/c10_common.hpp (digest and comparison)",
        design_ref="DESIGN.md section 3.6 and section 4, C10",
    ),
}
