"""C11 — distributed matrix algebra."""
TARGETS = {
    "c11_algebra": dict(src="mpi/c11_algebra.cpp", flavors=["mpi"], run_flavors=["mpi"], ranks=[1, 2, 3, 4, 5, 8], enum_ranks=[1, 2, 3, 4], ranks_thorough=[1, 2, 3, 4, 5, 6, 7, 8]),
}
PROPS = {
    "C11": dict(
        targets=["c11_algebra"],
        level="exploration",
        has_enum=True,
        enum_shards={"all_partitions": {"quick": 1, "thorough": 1}},
        rule="lock-step SPMD rapidcheck under mpirun -np k (k in 1,2,3,4,5,8; 1..8 thorough): every rank decodes the same global case "
             "(rectangular integer-valued sparse A (n x m), B (m x p), n,m,p <= 60, real, complex and 2x2 block values; contiguous row/column partitions generated as "
             "balanced / random cuts with empty ranks / everything on one rank), runs mul, residual, mpi::inner_product, transpose, product, scale, "
             "sort_rows, remote_rows, copy to a single-precision backend, spectral_radius, and the assembled results are compared bitwise with dense "
             "serial references; collective scalars gathered from every rank must be identical. Exhaustive: all contiguous partitions of n<=5 (6 thorough) rows over the "
             "launched ranks. non-trivial: >=2 ranks own rows and the matrix has entries in remote columns. distinct = distinct decoded choice sequences per rank count.",
        assumptions=["message arrival order is whatever OpenMPI 4.1.4 produces on one shared-memory node", "integer-valued data make all kernels exact in double (and in float for the backend-copy check)"],
        min_nontrivial=100,
    ),
}
MANIFEST_TEXT = {
    "C11": dict(
        engine="rapidcheck over MPI (lock-step SPMD) + enumerators",
        technique="property-based differential testing of the distributed kernels against dense serial references, same generated case on every rank, verdict agreed by MPI_Allreduce so shrinking stays synchronised; exhaustive partition enumeration for small n",
        level_text="Generated-input search over matrices, rank counts and contiguous partitions (including ranks that own nothing): every distributed operation is assembled and compared bitwise with the serial "
                   "operation on the global matrix, and every collective scalar is compared across all ranks. This decides the functional-equivalence part of the property on everything explored; message orderings other than "
                   "those OpenMPI produces on one node are not enumerated.",
        level_note="trusted: OpenMPI runtime, the dense references in mpi/c11_algebra.cpp, exactness of small-integer arithmetic",
        design_ref="DESIGN.md section 4, C11",
    ),
}
