"""C07 — backend vector / matrix-vector primitives equal their algebraic definitions."""
TARGETS = {
    "c07_builtin": dict(src="props/c07_builtin.cpp", flavors=["gcc", "asan"], asan_div=6),
    "c07_builtin_blk": dict(src="props/c07_builtin_blk.cpp", flavors=["gcc", "asan"], asan_div=6),
    "c07_block": dict(src="props/c07_block.cpp", flavors=["gcc", "asan"], asan_div=6),
    "c07_eigen": dict(src="props/c07_eigen.cpp", flavors=["gcc", "asan"], asan_div=6),
}

PROPS = {
    "C07": dict(
        targets=["c07_builtin", "c07_builtin_blk", "c07_block", "c07_eigen"],
        level="exploration",
        rule="tape-decoded cases: value type (float, double, long double, complex<double>, static_matrix<double,b,b> b=2,3,4, static_matrix<complex<double>,2,2>, "
             "Eigen::Matrix<double,b,b> b=2,3, Eigen::Matrix<complex<double>,2,2>) x backend (builtin crs, block_crs with block size 1..5, Eigen, builtin_hybrid b=2,3,4) x primitive "
             "(spmv, residual, axpby, axpbypcz, vmul, lin_comb with 1..5 vectors, copy, clear, inner_product) x container (std::vector / numa_vector / reinterpreted iterator_range) x "
             "coefficient class per coefficient ({0 incl. -0.0, 1, -1, other}; real and complex coefficients for complex values) x matrix shape 0..150 (zero rows, zero columns, rectangular, "
             "empty rows, sorted/unsorted rows) x value mode (exact: small integers, compared bitwise with a __float128 evaluation of the defining formula; real: full-mantissa random reals, "
             "|got-ref| <= 2(k+6) u_T S with k the number of accumulated terms and S the sum of the absolute values of the terms; inner products: 2(b+4+threads) u_T sum|x_i||y_i| for the "
             "Kahan/per-thread builtin sum, 2(n+2) u_T sum|x_i||y_i| for Eigen's dot) x OpenMP threads 1/4 (17 for inner products). Every output whose coefficient is zero, and every "
             "output of residual/copy/clear, is pre-filled with NaN/+Inf/-Inf/max and must come back finite and correct. non-trivial: a zero output coefficient with non-finite prefill, or "
             "block values (incl. scalar vectors passed where block vectors are expected, which must give bit-identical results), or a block_crs size not divisible by the block size, or a "
             "rectangular/ragged matrix with entries, or (vector primitives) two general coefficients / >= 2 vectors; inner products: n >= 2 and complex, block, multi-threaded or real-mode. "
             "distinct = distinct decoded choice sequences (64-bit hash), united over shards.",
        assumptions=["__float128 arithmetic (113-bit mantissa) is a correct, more precise evaluator of the defining formulas for float/double/long double operands",
                     "in exact mode all operands are integers of magnitude < 2^24 after every operation, so every kernel operation is exact in float, double and long double",
                     "the builds use no FMA contraction and no -ffast-math (x86-64 SSE2 / x87 long double)"],
        min_nontrivial=2000,
    ),
}

MANIFEST_TEXT = {
    "C07": dict(
        engine="rapidcheck (tape-decoded generators)",
        technique="property-based testing of every backend primitive against an independent quad-precision evaluation of its defining formula: bitwise on exactly representable operands, "
                  "explicit forward rounding bound otherwise; non-finite pre-fill of overwritten outputs; differential check scalar-vector vs block-vector calls; ASan/UBSan twins",
        level_text="Generated-input search: spmv, residual, axpby, axpbypcz, vmul, lin_comb, copy, clear and inner_product are called through the public amgcl::backend free functions for the "
                   "builtin, block_crs, Eigen and builtin_hybrid backends and for scalar, complex and block value types, with coefficients drawn from {0,-0,1,-1,other}, NaN/Inf pre-filled outputs, "
                   "zero-row / rectangular / ragged matrices, and compared with the defining formula evaluated in __float128 from the harness-owned CSR arrays. The property is a universally "
                   "quantified functional equivalence with a cheap exact oracle, so generated search with bitwise comparison is the appropriate level; it cannot show absence beyond the explored sizes and types.",
        level_note="trusted: the flattening traits and the __float128 reference in props/c07_common.hpp, exactness of small-integer arithmetic in all tested floating types, the stated rounding bounds",
        design_ref="DESIGN.md section 4, C07",
    ),
}
