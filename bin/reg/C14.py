"""C14 — run-time configuration is equivalent to compile-time configuration."""
_PROBE = dict(flavors=["gcc"], compile_probe=True)
TARGETS = {
    # (a)(b)(c): parameter table, typed access, export, re-import, unknown keys, invalid enumerations
    "c14_params": dict(src="props/c14_params.cpp", flavors=["gcc", "asan"], asan_div=8),
    # (d): run-time assembled vs compile-time typed solvers, bitwise
    "c14_equiv_amg": dict(src="props/c14_equiv_amg.cpp", flavors=["gcc"]),
    "c14_equiv_solver": dict(src="props/c14_equiv_solver.cpp", flavors=["gcc"]),
    # (d, distributed): runtime::mpi wrappers vs typed amgcl::mpi components, bitwise on every rank, 1..4 ranks (6 thorough)
    "c14_equiv_mpi": dict(src="mpi/c14_equiv_mpi.cpp", flavors=["mpi"], run_flavors=["mpi"], ranks=[1, 2, 3, 4], ranks_thorough=[1, 2, 3, 4, 6]),
    # (e): compile probes; a probe that does not compile IS the violation. When they compile their props run too.
    "c14_probe_make_solver": dict(src="props/c14_probe_make_solver.cpp", **_PROBE),
    "c14_probe_amg": dict(src="props/c14_probe_amg.cpp", **_PROBE),
    "c14_probe_deflated": dict(src="props/c14_probe_deflated.cpp", **_PROBE),
    "c14_probe_ilut": dict(src="props/c14_probe_ilut.cpp", **_PROBE),
}

PROPS = {
    "C14": dict(
        targets=["c14_params", "c14_equiv_amg", "c14_equiv_solver", "c14_equiv_mpi", "c14_probe_make_solver", "c14_probe_amg", "c14_probe_deflated", "c14_probe_ilut"],
        shard_mult={"quick": 6, "thorough": 6},
        level="exploration",
        rule="props/c14_components.hpp lists every params struct of the serial library with its fields (key, C++ type from the member pointer, value class). "
             "A case picks a struct (44 structs incl. composites amg/make_solver/deflated_solver/cpr/cpr_drs/schur/as_preconditioner and the run-time wrappers), a random subset of its fields "
             "(density 1/6..all) with non-default valid values written either by the typed put or as text, 0-2 unknown keys (typos of real keys or made-up names, leaf or subtree) at a random "
             "struct-level depth, and an export path prefix; checked: typed field == value for every field set and default for every other (model struct), unknown hook reports exactly the injected keys, "
             "export holds every value parameter under its key (text re-read with strtod/strtoll), every exported key is in the table, import(export)+pointer bundles == params with no unknown key. "
             "Run-time wrappers: the component selected by 'type' holds the same typed params as Component::params(tree). Invalid enumeration strings (typos, other family, case, number, empty) must throw. "
             "Equivalence: SPD M-matrix systems n=50..400 (gen_graph+gen_mmat), 1 thread, coarse_enough 2..25; 4 coarsenings x spai0, 9 relaxations x smoothed_aggregation (amg<runtime> + runtime solver vs typed + cg), "
             "9 solver types x amg<sa,spai0> and precond classes amg/relaxation/dummy/nested (runtime::preconditioner vs typed): (iters, resid, x) bitwise identical, unknown keys injected into the run-time tree are reported. "
             "Distributed equivalence (mpi/c14_equiv_mpi.cpp, 1..4 ranks, generated contiguous partitions incl. empty ranks, variable-coefficient M-matrices): mpi::make_solver<mpi::amg<runtime coarsening, runtime relaxation, "
             "runtime direct solver, runtime partitioner>, runtime solver> vs the typed mpi::amg<C,R> + typed solver for 2 coarsenings x 8 relaxations x 3 solvers with generated hierarchy / coarsening / relaxation / solver / "
             "repartition parameters: preconditioner application, iterations, residual and solution bitwise identical on every rank. "
             "non-trivial: >=3 non-default fields or an extra key (table/wrappers); >=3 non-default fields, no exception and >=2 levels for amg (equivalence). "
             "distinct = distinct decoded choice sequences (64-bit hash), united over shards.",
        assumptions=["the table in props/c14_components.hpp is complete: a parameter that is missing from the struct's import list AND export list AND the table is not seen (export keys outside the table are reported as 'harness table outdated')",
                     "two NaN results are considered equal regardless of sign/payload",
                     "strtod/strtof/strtoll read back the exported text exactly (glibc)"],
        min_nontrivial=400,
    ),
}

MANIFEST_TEXT = {
    "C14": dict(
        engine="rapidcheck + compile probes",
        technique="table-driven property-based testing of every parameter structure (model struct vs imported struct, exported text re-parsed independently, recording AMGCL_PARAM_UNKNOWN hook), "
                  "differential testing of run-time assembled against compile-time typed solvers with bitwise comparison, compile probes for the parameter exporters",
        level_text="Generated-input search over configurations: for every params struct of the serial library random subsets of fields with random valid non-default values, unknown keys at random depths and "
                   "invalid enumeration strings; run-time vs compile-time composites are compared bitwise on generated SPD systems for every coarsening, relaxation, solver and preconditioner class along one axis each. "
                   "This is the right level because the claim is a finite-table equivalence (hand-mirrored import/export lists) plus a functional equivalence with an exact oracle; it cannot show that the table itself is complete "
                   "for fields that are neither imported nor exported, nor cover the full cross product of components.",
        level_note="trusted: the field table props/c14_components.hpp (checked against the export key sets at run time), glibc strtod/strtoll, the typed (compile-time) classes as reference for the run-time ones",
        design_ref="DESIGN.md section 4, C14; Appendix A",
    ),
}
