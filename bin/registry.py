"""Which executables exist and which property each one decides.

Every file bin/reg/Cxx.py defines TARGETS, PROPS and MANIFEST_TEXT dictionaries for one
property; they are merged here."""
import glob, os, runpy

TARGETS, PROPS, MANIFEST_TEXT = {}, {}, {}
for _f in sorted(glob.glob(os.path.join(os.path.dirname(os.path.abspath(__file__)), "reg", "C*.py"))):
    _d = runpy.run_path(_f)
    for _k, _dst in (("TARGETS", TARGETS), ("PROPS", PROPS), ("MANIFEST_TEXT", MANIFEST_TEXT)):
        for _name, _v in _d.get(_k, {}).items():
            if _name in _dst and _dst[_name] != _v:
                raise RuntimeError("duplicate registry entry %s in %s" % (_name, _f))
            _dst[_name] = _v

# hook commits in /repo (guard AMGCL_VERIF)
HOOK_COMMITS = ["8d89bbf"]
