// C12 — the distributed solve is truthful and rank-consistent for any rank count and row distribution.
// Lock-step SPMD harness (common/harness_mpi.hpp).
#include <boost/property_tree/ptree.hpp>
#include <boost/property_tree/json_parser.hpp>
#include <amgcl/backend/builtin.hpp>
#include <amgcl/adapter/crs_tuple.hpp>
#include <amgcl/value_type/static_matrix.hpp>
#include <amgcl/mpi/util.hpp>
#include <amgcl/mpi/make_solver.hpp>
#include <amgcl/mpi/preconditioner.hpp>
#include <amgcl/mpi/solver/runtime.hpp>
#include <amgcl/mpi/coarsening/aggregation.hpp>
#include <amgcl/mpi/coarsening/smoothed_aggregation.hpp>
#include <amgcl/mpi/direct_solver/skyline_lu.hpp>
#include <amgcl/mpi/partition/merge.hpp>
#include <amgcl/mpi/subdomain_deflation.hpp>
#include <amgcl/mpi/block_preconditioner.hpp>
#include <amgcl/amg.hpp>
#include <amgcl/coarsening/runtime.hpp>
#include <amgcl/relaxation/runtime.hpp>
#include <amgcl/relaxation/as_preconditioner.hpp>
#include <amgcl/preconditioner/runtime.hpp>
#include <Eigen/Dense>
#include "../common/harness_mpi.hpp"
#include "../common/gen.hpp"
#include "../common/dense.hpp"
#include "../common/amgcl_util.hpp"
#include "mpi_util.hpp"

using namespace vf;
namespace ab = amgcl::backend;
typedef ab::builtin<double> B;
typedef amgcl::mpi::distributed_matrix<B> DM;

static const char *COARSE[] = {"smoothed_aggregation", "aggregation"};
static const char *RELAX[] = {"spai0", "damped_jacobi", "ilu0", "chebyshev", "spai1", "iluk", "ilup", "ilut", "gauss_seidel"};
static const char *SOLVER[] = {"cg", "bicgstab", "bicgstabl", "gmres", "fgmres", "lgmres", "idrs", "richardson"};

static double cond1_spd(const Csr<double> &A) {
    Eigen::MatrixXd E = Eigen::MatrixXd::Zero(A.n, A.n);
    for (ptrdiff_t i = 0; i < A.n; ++i) for (ptrdiff_t j = A.ptr[i]; j < A.ptr[i + 1]; ++j) E(i, A.col[j]) += A.val[j];
    Eigen::SelfAdjointEigenSolver<Eigen::MatrixXd> es(E, Eigen::EigenvaluesOnly);
    double lo = es.eigenvalues()(0), hi = es.eigenvalues()(A.n - 1);
    return lo > 0 ? hi / lo : 1e300;
}

// A setup exception that only some ranks see (e.g. the coarse direct solver factorises on its master rank) must not send the
// ranks into different collectives: agree on it before anybody calls the solver.
static bool any_rank_failed(bool mine) { int a = mine ? 1 : 0, b = 0; MPI_Allreduce(&a, &b, 1, MPI_INT, MPI_MAX, MPI_COMM_WORLD); return b != 0; }
static const char *OTHER_RANK = "setup failed on another rank (this rank did not call the solver)";

// Probe used by the predicate of the listed finding F-mpi-sa-near-zero-filtered-diagonal: replays the coarsening loop of mpi::amg
// with the distributed smoothed aggregation (default parameters, no repartitioning) and reports - identically on all ranks -
// whether some prolongation carries an entry of absurd magnitude (a filtered diagonal that is a cancellation residue ~1e-17 is
// inverted; the next coarse operator then has entries ~1e29 and the coarse direct solver throws on its master rank only, which
// leaves the other ranks inside collectives).
static bool mpi_sa_blows_up(amgcl::mpi::communicator comm, const Csr<double> &Al, ptrdiff_t coarse_enough, double &worst) {
    auto tup = std::make_tuple(static_cast<size_t>(Al.n), Al.ptr, Al.col, Al.val);
    auto A = std::make_shared<DM>(comm, tup, Al.n);
    amgcl::mpi::coarsening::smoothed_aggregation<B> C;
    worst = 0;
    for (int lev = 0; lev < 30 && A->glob_rows() > coarse_enough; ++lev) {
        std::shared_ptr<DM> P, R; int empty = 0;
        try { std::tie(P, R) = C.transfer_operators(*A); } catch (const amgcl::error::empty_level &) { empty = 1; }
        int any_empty = 0; MPI_Allreduce(&empty, &any_empty, 1, MPI_INT, MPI_MAX, MPI_COMM_WORLD);
        if (any_empty) break;
        double mx = 0;
        for (auto M : {P->local(), P->remote()}) for (size_t q = 0; q < M->nnz; ++q) { double a = std::abs(M->val[q]); if (!(a <= mx)) mx = std::isfinite(a) ? a : 1e300; }
        double gmx = 0; MPI_Allreduce(&mx, &gmx, 1, MPI_DOUBLE, MPI_MAX, MPI_COMM_WORLD);
        worst = std::max(worst, gmx);
        if (gmx > 1e6) return true;
        if (P->glob_cols() == 0 || P->glob_cols() >= A->glob_rows()) break;
        A = C.coarse_operator(*A, *P, *R);
    }
    return false;
}

// ------------------------------------------------------------------ full solves through the runtime interface
static void prop_solve(Tape &t, Ctx &c) {
    const int k = size_ref(), me = rank_ref();
    amgcl::mpi::communicator comm(MPI_COMM_WORLD);
    // model problems: isotropic grids and bounded-degree graphs, contrast <= 10
    Graph g = gen_graph(t, t.chance(1, 3) ? 400 : 120, 1, 5);
    MmatInfo info;
    Csr<double> A = gen_mmat(t, g, 10.0, false, &info);
    const ptrdiff_t n = A.n;
    std::vector<ptrdiff_t> dom = gen_partition(t, n, k);
    int ci = static_cast<int>(t.u(0, 1)), ri = static_cast<int>(t.u(0, 8)), si = static_cast<int>(t.u(0, 7));
    // calibration aid (never set by bin/check): pin the relaxation / solver / coarsening of every generated case
    if (const char *e = getenv("VF_C12_RELAX")) ri = atoi(e);
    if (const char *e = getenv("VF_C12_SOLVER")) si = atoi(e);
    if (const char *e = getenv("VF_C12_COARSE")) ci = atoi(e);
    bool single_level = t.chance(1, 8);
    boost::property_tree::ptree prm;
    if (single_level) { prm.put("precond.class", "relaxation"); prm.put("precond.type", RELAX[ri]); }
    else {
        prm.put("precond.class", "amg");
        prm.put("precond.coarsening.type", COARSE[ci]);
        prm.put("precond.relax.type", RELAX[ri]);
        prm.put("precond.coarse_enough", static_cast<int>(t.u(20, 150)));
        if (t.b()) { prm.put("precond.repart.enable", true); prm.put("precond.repart.min_per_proc", static_cast<int>(t.u(5, 200))); }
        if (t.chance(1, 4)) prm.put("precond.direct_coarse", false);
    }
    prm.put("solver.type", SOLVER[si]);
    prm.put("solver.tol", 1e-8);
    prm.put("solver.maxiter", 500);
    int L = 2;
    if (si == 2) { L = static_cast<int>(t.u(1, 3)); prm.put("solver.L", L); }
    if (si == 6) prm.put("solver.s", static_cast<int>(t.u(1, std::max<ptrdiff_t>(1, std::min<ptrdiff_t>(4, n))))); // IDR(s) needs s <= n (s shadow vectors are orthonormalised in R^n)
    std::vector<double> f = gen_vec(t, n, static_cast<int>(t.u(0, 2)));
    bool nz = false; for (double v : f) nz = nz || v != 0; if (!nz && n) f[0] = 1;

    int active = 0; for (int r = 0; r < k; ++r) active += dom[r + 1] > dom[r];
    c.label(std::string("s:") + SOLVER[si]); c.label(std::string("r:") + RELAX[ri]); c.label(single_level ? "single-level" : std::string("c:") + COARSE[ci]);
    c.label(active < k ? "has-empty-rank" : "all-ranks-active");
    c.desc << "solve ranks=" << k << " " << SOLVER[si] << "+" << (single_level ? "relaxation" : COARSE[ci]) << "/" << RELAX[ri] << " " << g.family << " n=" << n << " nnz=" << A.nnz() << " dom:";
    for (auto d : dom) c.desc << d << ",";

    typedef amgcl::mpi::make_solver<amgcl::runtime::mpi::preconditioner<B>, amgcl::runtime::mpi::solver::wrapper<B>> Solver;
    // ---- collective part
    Csr<double> Al = strip(A, dom[me], dom[me + 1]);
    if (!single_level && ci == 0) { // listed finding: decided collectively (all ranks get the same answer) before the solver is built
        double worst = 0;
        if (mpi_sa_blows_up(comm, Al, prm.get("precond.coarse_enough", 3000), worst)) {
            c.label("mpi-sa-prolongation-blow-up"); c.desc << " max|P|=" << worst;
            if (c.known("F-mpi-sa-near-zero-filtered-diagonal")) return;
            // exclusion lifted: report the root cause instead of running into the dead-lock it leads to
            mpi_checked([&]() { VF_REQUIRE(false, "distributed smoothed aggregation on an SPD M-matrix produced a prolongation entry of magnitude " << worst
                << " (a filtered diagonal that is a cancellation residue is inverted); the coarse operator is then numerically singular, the coarse direct solver throws on its master rank only and the remaining ranks wait in collectives forever (no termination, no convergence)"); });
            return;
        }
    }
    auto tup = std::make_tuple(static_cast<size_t>(Al.n), Al.ptr, Al.col, Al.val);
    std::vector<double> fl(f.begin() + dom[me], f.begin() + dom[me + 1]), xl(Al.n, 0.0);
    size_t iters = 0; double resid = 0;
    std::string cerr_;
    bool threw = false;
    std::unique_ptr<Solver> Sp;
    try { Sp.reset(new Solver(comm, tup, prm)); }
    catch (const std::exception &e) { threw = true; cerr_ = std::string("exception on this rank: ") + e.what(); if (env_flag("VF_C12_TRACE")) std::cerr << "TRACE rank " << me << ": " << cerr_ << std::endl; }
    if (any_rank_failed(threw)) { if (!threw) { threw = true; cerr_ = OTHER_RANK; } Sp.reset(); }
    else try {
        Solver &S = *Sp;
        if (env_flag("VF_C12_TRACE")) { // diagnostic aid (never set by bin/check)
            if (me == 0) { boost::property_tree::write_json(std::cerr, prm); std::cerr << "TRACE prm: "; for (auto &kv : prm.get_child("precond")) std::cerr << kv.first << "=" << kv.second.data() << " "; std::cerr << "\n" << S.precond() << std::endl; }
            std::vector<double> z(Al.n, 0.0); S.precond().apply(fl, z); int bad = 0; for (double v : z) bad += !std::isfinite(v);
            std::cerr << "TRACE rank " << me << ": precond.apply(f) has " << bad << " non-finite of " << z.size() << std::endl;
        }
        std::tie(iters, resid) = S(fl, xl);
    } catch (const std::exception &e) { threw = true; cerr_ = std::string("exception on this rank: ") + e.what(); if (env_flag("VF_C12_TRACE")) std::cerr << "TRACE rank " << me << ": " << cerr_ << std::endl; }
    if (env_flag("VF_C12_TRACE")) std::cerr << "TRACE rank " << me << " left the solver: iters=" << iters << " resid=" << resid << std::endl;
    // a rank-local exception would leave the others inside a collective: nothing we can do but report it afterwards
    std::vector<cplx> X = gather_vec(xl);
    std::vector<double> all = allgatherv(std::vector<double>{double(iters), resid, threw ? 1.0 : 0.0}, MPI_DOUBLE);
    // BiCGStab(L) and IDR(s) keep iterating past the exhaustion of the Krylov space; the recursively carried residual then has no
    // relation to the true one (the root cause listed as F-recursion-gap under C01, same solver templates with the MPI inner
    // product). Class membership as in C01: the run performed at least as many matrix-vector products as the numerical grade of
    // (A B, f). B is probed column by column through the distributed preconditioner - collectively, and only when the strict
    // bound is exceeded (decision taken from rank 0's gathered numbers, so every rank makes the same calls).
    bool gap_class = false; size_t grade = 0, matvecs = 0;
    {
        bool any_threw = false; for (int r = 0; r < k; ++r) any_threw = any_threw || all[3 * r + 2] != 0;
        double res0 = all[1]; size_t it0 = static_cast<size_t>(all[0]);
        if ((si == 2 || si == 6) && !any_threw && Sp && std::isfinite(res0) && static_cast<ptrdiff_t>(X.size()) == n && n <= 400) {
            std::vector<double> xg(n); for (ptrdiff_t i = 0; i < n; ++i) xg[i] = X[i].real();
            long double rt0 = true_relres(A, f, xg);
            double kap = cond1_spd(A);
            long double allow0 = 0.01L * std::max<long double>(res0, rt0) + 200.0L * 1.1e-16L * kap * (it0 + 2);
            if (std::abs(res0 - rt0) > allow0) {
                Eigen::MatrixXd Bm(n, n);
                std::vector<double> e(Al.n), z(Al.n);
                for (ptrdiff_t j = 0; j < n; ++j) {
                    std::fill(e.begin(), e.end(), 0.0); std::fill(z.begin(), z.end(), 0.0);
                    if (j >= dom[me] && j < dom[me + 1]) e[j - dom[me]] = 1.0;
                    Sp->precond().apply(e, z);
                    std::vector<cplx> col = gather_vec(z);
                    for (ptrdiff_t i = 0; i < n; ++i) Bm(i, j) = col[i].real();
                }
                Eigen::MatrixXd Am = Eigen::MatrixXd::Zero(n, n);
                for (ptrdiff_t i = 0; i < n; ++i) for (ptrdiff_t j = A.ptr[i]; j < A.ptr[i + 1]; ++j) Am(i, A.col[j]) += A.val[j];
                Eigen::MatrixXd M = Am * Bm;
                Eigen::VectorXd v(n); for (ptrdiff_t i = 0; i < n; ++i) v(i) = f[i];
                // numerical grade: first Arnoldi step whose sub-diagonal entry drops below 1e-6 of the largest one
                { double nv = v.norm(); std::vector<Eigen::VectorXd> Q; if (nv > 0) Q.push_back(v / nv); double hmax = 0; grade = static_cast<size_t>(n);
                  for (ptrdiff_t j = 1; nv > 0 && j <= n; ++j) { Eigen::VectorXd w = M * Q.back(); for (int pass = 0; pass < 2; ++pass) for (auto &q : Q) w -= q * q.dot(w); double h = w.norm(); if (!std::isfinite(h) || h <= 1e-6 * hmax || h == 0) { grade = static_cast<size_t>(j); break; } hmax = std::max(hmax, h); Q.push_back(w / h); } }
                int sprm = prm.get("solver.s", 4);
                matvecs = si == 2 ? 2 * it0 : it0 + it0 / std::max(1, sprm) + 1;
                gap_class = matvecs >= grade;
            }
        }
    }

    mpi_checked([&]() {
        VF_REQUIRE(!threw, cerr_);
        for (int r = 1; r < k; ++r) VF_REQUIRE(all[3 * r] == all[0] && memcmp(&all[3 * r + 1], &all[1], 8) == 0, "rank " << r << " reports (" << all[3 * r] << ", " << all[3 * r + 1] << ") but rank 0 reports (" << all[0] << ", " << all[1] << ")");
        VF_REQUIRE(static_cast<ptrdiff_t>(X.size()) == n, "assembled solution has " << X.size() << " entries");
        std::vector<double> x(n); for (ptrdiff_t i = 0; i < n; ++i) x[i] = X[i].real();
        long double rt = true_relres(A, f, x);
        size_t bound = 500 + (si == 2 ? L - 1 : 0);
        VF_REQUIRE(iters <= bound, "iteration count " << iters << " exceeds the configured maximum 500" << (si == 2 ? " (+L-1)" : ""));
        c.nontrivial = iters >= 2 && active >= 2;
        if (gap_class) { // only the iteration budget is asserted inside the class (as in C01)
            c.label("recursion-gap-class"); c.desc << " [matvecs=" << matvecs << " >= numerical grade " << grade << "]";
            if (c.known("F-recursion-gap-mpi")) return;
        }
        if (std::isfinite(resid)) {
            double kappa = n <= 400 ? cond1_spd(A) : 1e4;
            long double allow = 0.01L * std::max<long double>(resid, rt) + 200.0L * 1.1e-16L * kappa * (iters + 2);
            VF_REQUIRE(std::abs(resid - rt) <= allow, "reported residual " << resid << " but true residual of the assembled solution is " << static_cast<double>(rt) << " (kappa=" << kappa << ", iters=" << iters << ")");
            if (resid < 1e-8) VF_REQUIRE(rt < 1.1e-8L, "reported " << resid << " < tol but true residual " << static_cast<double>(rt));
        }
        // convergence on SPD M-matrices for every coarsening x relaxation x Krylov solver combination
        bool converged = std::isfinite(resid) && resid < 1e-8;
        c.label(converged ? "converged" : "not-converged");
        if (!converged) {
            // listed findings: the distributed Gauss-Seidel ignores remote couplings; plain aggregation over-interpolation with stationary iteration
            if (ri == 8 && active >= 2) { if (c.known("F-mpigs")) return; }
            // CG is only defined for a symmetric preconditioner; SPAI-1 and ILUT are not symmetric (C02 lists the symmetric smoothers),
            // and on small systems CG + spai1/ilut indeed stalls: listed, since the property claims every combination
            if (si == 0 && (ri == 4 || ri == 7)) { if (c.known("F-cg-nonsym-smoother")) return; }
            if (si == 7) { c.label("richardson-no-claim"); return; } // stationary iteration: rate clause is C01(d)/C02's, no 100-iteration claim
            if (single_level) { c.label("single-level-no-claim"); return; } // "coarsening x relaxation x solver" combinations are the multigrid ones
            VF_REQUIRE(false, SOLVER[si] << " with " << COARSE[ci] << "/" << RELAX[ri] << " did not reach 1e-8 in 500 iterations on an SPD M-matrix (reported " << resid << " after " << iters << " iterations, " << active << " active ranks)");
        }
    });
}

// ------------------------------------------------------------------ distributed coarsening: aggregates, null space, Galerkin
static double coarse_over(const amgcl::mpi::coarsening::aggregation<B> &c) { return c.prm.over_interp; }
static double coarse_over(const amgcl::mpi::coarsening::smoothed_aggregation<B> &) { return 1.0; }
template <class C>
static void check_coarsening(Tape &t, Ctx &c, bool smoothed) {
    const int k = size_ref(), me = rank_ref();
    amgcl::mpi::communicator comm(MPI_COMM_WORLD);
    Graph g = gen_graph(t, t.chance(1, 3) ? 200 : 40, 0, 9);
    Csr<double> A = gen_mmat(t, g, 100.0, true);
    const ptrdiff_t n = A.n;
    std::vector<ptrdiff_t> dom = gen_partition(t, n, k);
    int nv = smoothed ? 0 : static_cast<int>(t.u(0, 3)); // near-null-space vectors
    double eps_strong = t.b() ? 0.08 : t.uni(0.0, 0.5);
    std::vector<double> Bns(static_cast<size_t>(n) * std::max(nv, 1));
    for (ptrdiff_t i = 0; i < n; ++i) for (int v = 0; v < nv; ++v) Bns[i * nv + v] = v == 0 ? 1.0 : t.uni(-1.0, 1.0);
    int active = 0; for (int r = 0; r < k; ++r) active += dom[r + 1] > dom[r];
    c.desc << (smoothed ? "mpi smoothed_aggregation" : "mpi aggregation") << " ranks=" << k << " " << g.family << " n=" << n << " nv=" << nv << " eps=" << eps_strong << " dom:";
    for (auto d : dom) c.desc << d << ",";
    c.label(nv ? "nullspace" : "no-nullspace");
    c.label(active < k ? "has-empty-rank" : "all-ranks-active");

    Csr<double> Al = strip(A, dom[me], dom[me + 1]);
    auto tup = std::make_tuple(static_cast<size_t>(Al.n), Al.ptr, Al.col, Al.val);
    typename C::params prm;
    prm.aggr.eps_strong = static_cast<float>(eps_strong);
    std::vector<double> Bl(Bns.begin() + dom[me] * nv, Bns.begin() + dom[me + 1] * nv);
    if (nv) { prm.aggr.nullspace.cols = nv; prm.aggr.nullspace.B = Bl; }
    std::string cerr_;
    DM dA(comm, tup);
    C coarse(prm);
    std::shared_ptr<DM> P, R, Ac;
    bool empty_level = false;
    try {
        std::tie(P, R) = coarse.transfer_operators(dA);
        Ac = coarse.coarse_operator(dA, *P, *R);
    } catch (const amgcl::error::empty_level &) { empty_level = true; }
    int el = empty_level, el_all = 0;
    MPI_Allreduce(&el, &el_all, 1, MPI_INT, MPI_MAX, MPI_COMM_WORLD);
    if (el_all) { mpi_checked([&]() { VF_REQUIRE(empty_level, "empty_level raised on some ranks only"); }); c.label("empty-level"); return; }
    ptrdiff_t nc = P->glob_cols();
    std::vector<ptrdiff_t> cdom_loc = {P->loc_col_shift()};
    long nz;
    Dense<cplx> DP = assemble<double>(*P, n, nc, dom[me], nz, cerr_);
    Dense<cplx> DR = assemble<double>(*R, nc, n, P->loc_col_shift(), nz, cerr_);
    Dense<cplx> DAc = assemble<double>(*Ac, nc, nc, P->loc_col_shift(), nz, cerr_);
    // coarse null-space as updated by the coarsening (local rows = local coarse unknowns)
    std::vector<cplx> Bc = nv ? gather_vec(coarse.prm.aggr.nullspace.B) : std::vector<cplx>();
    double over = smoothed ? 1.0 : coarse_over(coarse);

    mpi_checked([&]() {
        VF_REQUIRE(cerr_.empty(), cerr_);
        Dense<cplx> DA = dense_of(A);
        c.nontrivial = active >= 2 && nc >= 2;
        // R == P^T
        for (ptrdiff_t i = 0; i < n; ++i) for (ptrdiff_t j = 0; j < nc; ++j) VF_REQUIRE(DR(j, i) == std::conj(DP(i, j)), "R != adjoint(P) at (" << j << "," << i << ")");
        if (!smoothed) {
            // tentative prolongation: aggregates form a global partition
            int cols_per_aggr = std::max(nv, 1);
            VF_REQUIRE(nc % cols_per_aggr == 0, "coarse size " << nc << " not a multiple of the null-space dimension " << nv);
            ptrdiff_t naggr = nc / cols_per_aggr;
            std::vector<ptrdiff_t> aggr(n, -1), size(naggr, 0);
            for (ptrdiff_t i = 0; i < n; ++i) {
                std::set<ptrdiff_t> as;
                for (ptrdiff_t j = 0; j < nc; ++j) if (DP(i, j) != cplx(0)) as.insert(j / cols_per_aggr);
                VF_REQUIRE(as.size() <= 1, "unknown " << i << " belongs to " << as.size() << " aggregates");
                if (!as.empty()) { aggr[i] = *as.begin(); ++size[aggr[i]]; }
            }
            for (ptrdiff_t a = 0; a < naggr; ++a) VF_REQUIRE(size[a] > 0, "aggregate " << a << " of " << naggr << " is empty");
            // isolated <=> no strong neighbour (a_ij^2 > eps^2 a_ii a_jj for some j != i, documented definition)
            for (ptrdiff_t i = 0; i < n; ++i) {
                bool strong = false, any_off = false;
                for (ptrdiff_t j = 0; j < n; ++j) if (j != i && DA(i, j) != cplx(0)) {
                    any_off = true;
                    double lhs = std::norm(DA(i, j)), rhs = static_cast<double>(static_cast<float>(eps_strong)) * static_cast<float>(eps_strong) * std::abs(DA(i, i)) * std::abs(DA(j, j));
                    if (lhs > rhs * (1 + 1e-6)) strong = true;
                    else if (lhs > rhs * (1 - 1e-6)) { strong = aggr[i] >= 0; } // on the boundary either answer is accepted
                }
                if (!any_off) VF_REQUIRE(aggr[i] < 0, "unknown " << i << " without any coupling is in aggregate " << aggr[i]);
                else if (strong) VF_REQUIRE(aggr[i] >= 0, "unknown " << i << " has a strong neighbour but belongs to no aggregate");
            }
            if (nv) {
                // P * Bc == B on aggregated rows, and P has orthonormal columns
                VF_REQUIRE(static_cast<ptrdiff_t>(Bc.size()) == nc * nv, "coarse null-space has " << Bc.size() << " entries, expected " << nc * nv);
                for (ptrdiff_t i = 0; i < n; ++i) if (aggr[i] >= 0) for (int v = 0; v < nv; ++v) {
                    cplx s = 0; for (ptrdiff_t j = 0; j < nc; ++j) s += DP(i, j) * Bc[j * nv + v];
                    VF_REQUIRE(std::abs(s - Bns[i * nv + v]) <= 1e-10 * (1 + std::abs(Bns[i * nv + v])), "P*B_coarse != B at row " << i << " vector " << v << ": " << s << " vs " << Bns[i * nv + v]);
                }
                for (ptrdiff_t a = 0; a < nc; ++a) for (ptrdiff_t b = a; b < nc; ++b) {
                    cplx s = 0; for (ptrdiff_t i = 0; i < n; ++i) s += std::conj(DP(i, a)) * DP(i, b);
                    bool degenerate = size[a / nv] < nv; // fewer rows than vectors: QR cannot give nv orthonormal columns
                    if (!degenerate) VF_REQUIRE(std::abs(s - cplx(a == b ? 1.0 : 0.0)) <= 1e-10, "P^T P != I at (" << a << "," << b << "): " << s);
                }
            } else {
                for (ptrdiff_t i = 0; i < n; ++i) if (aggr[i] >= 0) VF_REQUIRE(DP(i, aggr[i]) == cplx(1.0), "piecewise-constant prolongation entry " << DP(i, aggr[i]) << " at row " << i);
            }
        } else {
            // smoothed aggregation, symmetric A: rows of P sum to one on zero-row-sum rows that are aggregated ... weaker, always valid:
            // every column of P is non-empty
            for (ptrdiff_t j = 0; j < nc; ++j) { bool any = false; for (ptrdiff_t i = 0; i < n; ++i) any = any || DP(i, j) != cplx(0); VF_REQUIRE(any, "empty coarse column " << j); }
        }
        // Galerkin: A_c == R A P / over_interp
        Dense<cplx> G = matmul(DR, matmul(DA, DP));
        Dense<cplx> Gabs(nc, nc);
        {
            Dense<cplx> aR = DR, aA = DA, aP = DP;
            for (auto &v : aR.a) v = std::abs(v); for (auto &v : aA.a) v = std::abs(v); for (auto &v : aP.a) v = std::abs(v);
            Gabs = matmul(aR, matmul(aA, aP));
        }
        for (ptrdiff_t i = 0; i < nc; ++i) for (ptrdiff_t j = 0; j < nc; ++j) {
            // over_interp is a float parameter and the library multiplies by the float 1/alpha
            double inv_over = static_cast<double>(1.0f / static_cast<float>(over));
            cplx ref = G(i, j) * inv_over;
            double scale = Gabs(i, j).real() * inv_over;
            VF_REQUIRE(std::abs(DAc(i, j) - ref) <= 64 * (n + 2) * 1.1e-16 * scale + 1e-300, "coarse matrix (" << i << "," << j << ") = " << DAc(i, j) << " but R*A*P/alpha = " << ref);
        }
    });
}
static void prop_aggregation(Tape &t, Ctx &c) { check_coarsening<amgcl::mpi::coarsening::aggregation<B>>(t, c, false); }
static void prop_smoothed(Tape &t, Ctx &c) { check_coarsening<amgcl::mpi::coarsening::smoothed_aggregation<B>>(t, c, true); }

// ------------------------------------------------------------------ distributed direct solver
static void prop_direct(Tape &t, Ctx &c) {
    const int k = size_ref(), me = rank_ref();
    amgcl::mpi::communicator comm(MPI_COMM_WORLD);
    Graph g = gen_graph(t, 60, 0, 9);
    Csr<double> A = gen_mmat(t, g, 100.0, true);
    const ptrdiff_t n = A.n;
    std::vector<ptrdiff_t> dom = gen_partition(t, n, k);
    std::vector<double> f = gen_vec(t, n, 2);
    int active = 0; for (int r = 0; r < k; ++r) active += dom[r + 1] > dom[r];
    c.desc << "mpi skyline_lu ranks=" << k << " " << g.family << " n=" << n << " dom:"; for (auto d : dom) c.desc << d << ",";
    c.nontrivial = active >= 2;
    c.label(active < k ? "has-empty-rank" : "all-ranks-active");
    Csr<double> Al = strip(A, dom[me], dom[me + 1]);
    auto tup = std::make_tuple(static_cast<size_t>(Al.n), Al.ptr, Al.col, Al.val);
    DM dA(comm, tup);
    amgcl::mpi::direct::skyline_lu<double> S(comm, dA);
    std::vector<double> fl(f.begin() + dom[me], f.begin() + dom[me + 1]), xl(Al.n, 0.0);
    S(fl, xl);
    // second call: object is reusable
    std::vector<double> xl2(Al.n, 0.0);
    S(fl, xl2);
    std::vector<cplx> X = gather_vec(xl), X2 = gather_vec(xl2);
    mpi_checked([&]() {
        Dense<long double> D = to_dense<long double>(A);
        std::vector<long double> b(f.begin(), f.end()), ref;
        VF_REQUIRE(dense_solve(D, b, ref), "harness: reference solve failed");
        double kappa = cond1_spd(A);
        long double nx = 0; for (auto v : ref) nx = std::max(nx, std::abs(v));
        for (ptrdiff_t i = 0; i < n; ++i) {
            VF_REQUIRE(std::abs(X[i].real() - ref[i]) <= 16.0L * n * 1.1e-16L * kappa * nx + 1e-300L, "direct coarse solve x[" << i << "] = " << X[i].real() << " vs dense solution " << static_cast<double>(ref[i]) << " (kappa " << kappa << ")");
            VF_REQUIRE(X2[i] == X[i], "second call of the direct solver gives a different x[" << i << "]");
        }
    });
}

// block-valued coarse systems: the rhs / solution exchanged with the master rank are b-vectors per unknown
template <int BS>
static void prop_direct_block(Tape &t, Ctx &c) {
    typedef amgcl::static_matrix<double, BS, BS> V;
    typedef amgcl::static_matrix<double, BS, 1> R;
    typedef ab::builtin<V> BB;
    typedef amgcl::mpi::distributed_matrix<BB> DMB;
    const int k = size_ref(), me = rank_ref();
    amgcl::mpi::communicator comm(MPI_COMM_WORLD);
    Graph g = gen_graph(t, 30, 0, 9);
    const ptrdiff_t n = g.n;
    // block diagonally dominant: A_ij = -w_ij (I + 0.3 E_ij), A_ii = (sum_j w_ij * 1.6 + shift) I + 0.2 E_i
    std::vector<std::map<ptrdiff_t, V>> rows(n);
    std::vector<double> wsum(n, 0.0);
    auto rnd = [&](double a) { V e; for (int q = 0; q < BS * BS; ++q) e(q) = t.uni(-a, a); return e; };
    for (auto &e : g.edges) {
        double w = t.logu(0.5, 5);
        V b1 = rnd(0.3 * w), b2 = rnd(0.3 * w);
        for (int q = 0; q < BS; ++q) { b1(q, q) -= w; b2(q, q) -= w; }
        rows[e.first][e.second] = b1; rows[e.second][e.first] = b2;
        wsum[e.first] += w; wsum[e.second] += w;
    }
    for (ptrdiff_t i = 0; i < n; ++i) { V d = rnd(0.2); double dd = 1.6 * BS * wsum[i] + t.logu(0.5, 2); for (int q = 0; q < BS; ++q) d(q, q) += dd; rows[i][i] = d; }
    Csr<V> A; A.n = A.m = n; A.ptr.assign(n + 1, 0);
    for (ptrdiff_t i = 0; i < n; ++i) { for (auto &kv : rows[i]) { A.col.push_back(kv.first); A.val.push_back(kv.second); } A.ptr[i + 1] = static_cast<ptrdiff_t>(A.col.size()); }
    std::vector<ptrdiff_t> dom = gen_partition(t, n, k);
    std::vector<R> f(n); for (auto &v : f) for (int q = 0; q < BS; ++q) v(q) = t.uni(-1, 1);
    int active = 0; for (int r = 0; r < k; ++r) active += dom[r + 1] > dom[r];
    c.desc << "mpi skyline_lu<block " << BS << "> ranks=" << k << " " << g.family << " n=" << n << " dom:"; for (auto d : dom) c.desc << d << ",";
    c.nontrivial = active >= 2;
    c.label("block-values"); c.label(active < k ? "has-empty-rank" : "all-ranks-active");
    Csr<V> Al = strip(A, dom[me], dom[me + 1]);
    auto tup = std::make_tuple(static_cast<size_t>(Al.n), Al.ptr, Al.col, Al.val);
    DMB dA(comm, tup);
    amgcl::mpi::direct::skyline_lu<V> S(comm, dA);
    std::vector<R> fl(f.begin() + dom[me], f.begin() + dom[me + 1]), xl(Al.n);
    for (auto &v : xl) for (int q = 0; q < BS; ++q) v(q) = 0;
    S(fl, xl);
    std::vector<double> flat(static_cast<size_t>(Al.n) * BS);
    for (ptrdiff_t i = 0; i < Al.n; ++i) for (int q = 0; q < BS; ++q) flat[i * BS + q] = xl[i](q);
    std::vector<double> X = allgatherv(flat, MPI_DOUBLE);
    mpi_checked([&]() {
        VF_REQUIRE(static_cast<ptrdiff_t>(X.size()) == n * BS, "assembled solution has " << X.size() << " entries");
        Dense<long double> D(n * BS, n * BS);
        for (ptrdiff_t i = 0; i < n; ++i) for (ptrdiff_t j = A.ptr[i]; j < A.ptr[i + 1]; ++j) for (int p = 0; p < BS; ++p) for (int q = 0; q < BS; ++q) D(i * BS + p, A.col[j] * BS + q) = A.val[j](p, q);
        std::vector<long double> b(n * BS), ref;
        for (ptrdiff_t i = 0; i < n; ++i) for (int q = 0; q < BS; ++q) b[i * BS + q] = f[i](q);
        VF_REQUIRE(dense_solve(D, b, ref), "harness: reference solve failed");
        long double nx = 0; for (auto v : ref) nx = std::max(nx, std::abs(v));
        // strictly block diagonally dominant with margin: kappa_inf is O(10)
        for (ptrdiff_t i = 0; i < n * BS; ++i)
            VF_REQUIRE(std::abs(X[i] - ref[i]) <= 1e-11L * (nx + 1e-300L), "block direct coarse solve: component " << i << " = " << X[i] << " vs dense solution " << static_cast<double>(ref[i]));
    });
}

// ------------------------------------------------------------------ block-valued distributed solve, block preconditioner, subdomain deflation
// symmetric positive definite block system with non-commuting blocks: A_ij = -w_ij C_ij (C_ij SPD), A_ii = sum_j w_ij C_ij + shift
template <int BS>
static Csr<amgcl::static_matrix<double, BS, BS>> gen_block_spd(Tape &t, const Graph &g) {
    typedef amgcl::static_matrix<double, BS, BS> V;
    const ptrdiff_t n = g.n;
    std::vector<std::map<ptrdiff_t, V>> rows(n);
    auto zero = []() { V z; for (int q = 0; q < BS * BS; ++q) z(q) = 0; return z; };
    for (ptrdiff_t i = 0; i < n; ++i) rows[i][i] = zero();
    for (auto &e : g.edges) {
        double w = t.logu(1.0, 10.0);
        V cm = zero(); // C = I + 0.4 (v v^T): SPD, not a multiple of the identity
        std::vector<double> v(BS); for (auto &x : v) x = t.uni(-1, 1);
        for (int p = 0; p < BS; ++p) for (int q = 0; q < BS; ++q) cm(p, q) = (p == q ? 1.0 : 0.0) + 0.4 * v[p] * v[q];
        V m = zero(); for (int q = 0; q < BS * BS; ++q) m(q) = -w * cm(q);
        rows[e.first][e.second] = m; rows[e.second][e.first] = m; // C symmetric => A symmetric
        for (int q = 0; q < BS * BS; ++q) { rows[e.first][e.first](q) += w * cm(q); rows[e.second][e.second](q) += w * cm(q); }
    }
    for (ptrdiff_t i = 0; i < n; ++i) { double sh = t.logu(0.05, 2.0); for (int q = 0; q < BS; ++q) rows[i][i](q, q) += sh; }
    Csr<V> A; A.n = A.m = n; A.ptr.assign(n + 1, 0);
    for (ptrdiff_t i = 0; i < n; ++i) { for (auto &kv : rows[i]) { A.col.push_back(kv.first); A.val.push_back(kv.second); } A.ptr[i + 1] = static_cast<ptrdiff_t>(A.col.size()); }
    return A;
}

template <int BS>
static void prop_solve_block(Tape &t, Ctx &c) {
    typedef amgcl::static_matrix<double, BS, BS> V;
    typedef amgcl::static_matrix<double, BS, 1> R;
    typedef ab::builtin<V> BB;
    const int k = size_ref(), me = rank_ref();
    amgcl::mpi::communicator comm(MPI_COMM_WORLD);
    Graph g = gen_graph(t, 150, 1, 5);
    Csr<V> A = gen_block_spd<BS>(t, g);
    const ptrdiff_t n = A.n;
    std::vector<ptrdiff_t> dom = gen_partition(t, n, k);
    static const char *BRELAX[] = {"spai0", "damped_jacobi", "ilu0"};
    static const char *BSOLVER[] = {"cg", "bicgstab", "gmres", "fgmres", "lgmres", "bicgstabl", "idrs"};
    int ci = static_cast<int>(t.u(0, 1)), ri = static_cast<int>(t.u(0, 2)), si = static_cast<int>(t.u(0, 6));
    boost::property_tree::ptree prm;
    prm.put("precond.class", "amg");
    prm.put("precond.coarsening.type", COARSE[ci]);
    prm.put("precond.relax.type", BRELAX[ri]);
    prm.put("precond.coarse_enough", static_cast<int>(t.u(10, 60)));
    prm.put("solver.type", BSOLVER[si]);
    prm.put("solver.tol", 1e-8);
    prm.put("solver.maxiter", 500);
    if (si == 6) prm.put("solver.s", static_cast<int>(t.u(1, std::max<ptrdiff_t>(1, std::min<ptrdiff_t>(4, n * BS)))));
    std::vector<R> f(n); for (auto &v : f) for (int q = 0; q < BS; ++q) v(q) = t.uni(-1, 1);
    if (n) f[0](0) = 1.0;
    int active = 0; for (int r = 0; r < k; ++r) active += dom[r + 1] > dom[r];
    c.label("block-values"); c.label(std::string("s:") + BSOLVER[si]); c.label(std::string("r:") + BRELAX[ri]); c.label(std::string("c:") + COARSE[ci]);
    c.label(active < k ? "has-empty-rank" : "all-ranks-active");
    c.desc << "block solve<" << BS << "> ranks=" << k << " " << BSOLVER[si] << "+" << COARSE[ci] << "/" << BRELAX[ri] << " " << g.family << " n=" << n << " dom:"; for (auto d : dom) c.desc << d << ",";
    typedef amgcl::mpi::make_solver<amgcl::runtime::mpi::preconditioner<BB>, amgcl::runtime::mpi::solver::wrapper<BB>> Solver;
    Csr<V> Al = strip(A, dom[me], dom[me + 1]);
    auto tup = std::make_tuple(static_cast<size_t>(Al.n), Al.ptr, Al.col, Al.val);
    std::vector<R> fl(f.begin() + dom[me], f.begin() + dom[me + 1]), xl(Al.n);
    for (auto &v : xl) for (int q = 0; q < BS; ++q) v(q) = 0;
    size_t iters = 0; double resid = 0; bool threw = false; std::string cerr_;
    try {
        std::unique_ptr<Solver> Sq; bool bad = false; std::string w;
        try { Sq.reset(new Solver(comm, tup, prm)); } catch (const std::exception &e) { bad = true; w = e.what(); }
        if (any_rank_failed(bad)) throw std::runtime_error(bad ? w : std::string(OTHER_RANK));
        std::tie(iters, resid) = (*Sq)(fl, xl);
    }
    catch (const std::exception &e) { threw = true; cerr_ = std::string("exception on this rank: ") + e.what(); }
    std::vector<double> flat(static_cast<size_t>(Al.n) * BS);
    for (ptrdiff_t i = 0; i < Al.n; ++i) for (int q = 0; q < BS; ++q) flat[i * BS + q] = xl[i](q);
    std::vector<double> X = allgatherv(flat, MPI_DOUBLE);
    std::vector<double> all = allgatherv(std::vector<double>{double(iters), resid}, MPI_DOUBLE);
    mpi_checked([&]() {
        VF_REQUIRE(!threw, cerr_);
        for (int r = 1; r < k; ++r) VF_REQUIRE(all[2 * r] == all[0] && memcmp(&all[2 * r + 1], &all[1], 8) == 0, "rank " << r << " reports (" << all[2 * r] << ", " << all[2 * r + 1] << ") but rank 0 reports (" << all[0] << ", " << all[1] << ")");
        VF_REQUIRE(static_cast<ptrdiff_t>(X.size()) == n * BS, "assembled solution has " << X.size() << " entries");
        // scalar expansion
        Csr<double> S; S.n = S.m = n * BS; S.ptr.assign(n * BS + 1, 0);
        for (ptrdiff_t i = 0; i < n; ++i) for (int p = 0; p < BS; ++p) {
            for (ptrdiff_t j = A.ptr[i]; j < A.ptr[i + 1]; ++j) for (int q = 0; q < BS; ++q) { S.col.push_back(A.col[j] * BS + q); S.val.push_back(A.val[j](p, q)); }
            S.ptr[i * BS + p + 1] = static_cast<ptrdiff_t>(S.col.size());
        }
        std::vector<double> fs(n * BS); for (ptrdiff_t i = 0; i < n; ++i) for (int q = 0; q < BS; ++q) fs[i * BS + q] = f[i](q);
        long double rt = true_relres(S, fs, X);
        VF_REQUIRE(iters <= 500 + (si == 5 ? 1 : 0), "iteration count " << iters << " exceeds the configured maximum");
        c.nontrivial = iters >= 2 && active >= 2;
        if (std::isfinite(resid)) {
            double kappa = S.n <= 400 ? cond1_spd(S) : 1e4;
            long double allow = 0.01L * std::max<long double>(resid, rt) + 200.0L * 1.1e-16L * kappa * (iters + 2);
            VF_REQUIRE(std::abs(resid - rt) <= allow, "reported residual " << resid << " but true residual of the assembled block solution is " << static_cast<double>(rt) << " (kappa=" << kappa << ", iters=" << iters << ")");
        }
        bool converged = std::isfinite(resid) && resid < 1e-8;
        c.label(converged ? "converged" : "not-converged");
        VF_REQUIRE(converged, BSOLVER[si] << " with " << COARSE[ci] << "/" << BRELAX[ri] << " did not reach 1e-8 in 500 iterations on an SPD block system (reported " << resid << " after " << iters << " iterations, " << active << " active ranks)");
    });
}

// one-level preconditioners that wrap a serial preconditioner per rank: block_preconditioner and subdomain_deflation (constant deflation)
static void prop_one_level(Tape &t, Ctx &c) {
    const int k = size_ref(), me = rank_ref();
    amgcl::mpi::communicator comm(MPI_COMM_WORLD);
    Graph g = gen_graph(t, t.chance(1, 3) ? 300 : 80, 1, 5);
    Csr<double> A = gen_mmat(t, g, 10.0, false);
    const ptrdiff_t n = A.n;
    bool sdd = t.b();
    std::vector<ptrdiff_t> dom = gen_partition(t, n, k);
    // listed finding F-sdd-empty-subdomain: subdomain_deflation does not survive a rank without rows (its deflation vector is
    // empty, the rank leaves the collective setup with an exception and the job aborts / hangs). The decision is taken from the
    // tape, i.e. identically on all ranks, before any collective call.
    if (sdd) for (int r = 0; r < k; ++r) if (dom[r + 1] == dom[r]) { c.label("sdd-empty-subdomain"); if (c.known("F-sdd-empty-subdomain")) return; break; }
    static const char *LSOLVER[] = {"cg", "bicgstab", "gmres", "fgmres", "lgmres"};
    static const char *LRELAX[] = {"spai0", "damped_jacobi", "ilu0", "gauss_seidel", "chebyshev"};
    int si = static_cast<int>(t.u(0, 4)), ri = static_cast<int>(t.u(0, 4)), ci = static_cast<int>(t.u(0, 1));
    bool local_amg = t.b();
    boost::property_tree::ptree lp;
    if (local_amg) { lp.put("class", "amg"); lp.put("coarsening.type", ci ? "aggregation" : "smoothed_aggregation"); lp.put("relax.type", LRELAX[ri]); lp.put("coarse_enough", static_cast<int>(t.u(5, 60))); }
    else { lp.put("class", "relaxation"); lp.put("type", LRELAX[ri]); }
    std::vector<double> f = gen_vec(t, n, 2);
    if (n) f[0] = 1.0;
    int active = 0; for (int r = 0; r < k; ++r) active += dom[r + 1] > dom[r];
    // deflation space: constant (1 vector), constant per degree of freedom (constant_deflation(bs)), or generated vectors
    // (first one constant, the others generic values per global row). Every sub-domain needs at least ndv rows, otherwise
    // its vectors are linearly dependent and the coarse matrix Z^T A Z is singular by construction.
    ptrdiff_t minrows = n; for (int r = 0; r < k; ++r) minrows = std::min(minrows, dom[r + 1] - dom[r]);
    int dkind = sdd ? static_cast<int>(t.u(0, 2)) : 0, ndv = 1;
    if (dkind) { ndv = static_cast<int>(t.u(2, 3)); if (minrows < ndv) { dkind = 0; ndv = 1; } }
    std::vector<double> ztab;
    if (dkind == 2) {
        // 1, x, x^2 in the local coordinate of each sub-domain (independent on >= ndv distinct points, also when the tape is
        // exhausted and every further draw is 0), each entry perturbed by a generated factor in [1, 1.2]
        ztab.resize(static_cast<size_t>(n) * ndv);
        for (int r = 0; r < k; ++r) {
            ptrdiff_t rows = dom[r + 1] - dom[r];
            for (ptrdiff_t i = dom[r]; i < dom[r + 1]; ++i) {
                double x = rows > 1 ? static_cast<double>(i - dom[r]) / (rows - 1) : 0.0;
                for (int j = 0; j < ndv; ++j) ztab[i * ndv + j] = j == 0 ? 1.0 : (j == 1 ? 0.5 + x : 0.25 + x * x) * (1.0 + 0.2 * t.r01());
            }
        }
    }
    if (sdd) c.label(dkind == 0 ? "deflation:constant" : dkind == 1 ? "deflation:constant-per-dof" : "deflation:generated-vectors");
    c.label(sdd ? "subdomain_deflation" : "block_preconditioner"); c.label(std::string("s:") + LSOLVER[si]); c.label(local_amg ? "local:amg" : "local:relaxation");
    c.desc << (sdd ? "subdomain_deflation" : "block_preconditioner") << " ranks=" << k << " " << LSOLVER[si] << " local=" << (local_amg ? "amg/" : "relax/") << LRELAX[ri] << " " << g.family << " n=" << n << " deflation_kind=" << dkind << " ndv=" << ndv << " dom:"; for (auto d : dom) c.desc << d << ",";
    Csr<double> Al = strip(A, dom[me], dom[me + 1]);
    auto tup = std::make_tuple(static_cast<size_t>(Al.n), Al.ptr, Al.col, Al.val);
    std::vector<double> fl(f.begin() + dom[me], f.begin() + dom[me + 1]), xl(Al.n, 0.0);
    size_t iters = 0; double resid = 0; bool threw = false; std::string cerr_;
    if (env_flag("VF_C12_TRACE") && me == 0) std::cerr << "TRACE " << c.desc.str() << std::endl;
    try {
        if (sdd) {
            typedef amgcl::mpi::subdomain_deflation<amgcl::runtime::preconditioner<B>, amgcl::runtime::mpi::solver::wrapper<B>, amgcl::mpi::direct::skyline_lu<double>> SDD;
            typename SDD::params prm;
            prm.local = lp;
            prm.isolver.put("type", LSOLVER[si]); prm.isolver.put("tol", 1e-8); prm.isolver.put("maxiter", 300);
            prm.num_def_vec = ndv;
            const ptrdiff_t row0 = dom[me];
            if (dkind == 2) prm.def_vec = [&ztab, ndv, row0](ptrdiff_t i, unsigned j) { return ztab[(row0 + i) * ndv + j]; };
            else prm.def_vec = amgcl::mpi::constant_deflation(ndv);
            // no agreement step here: a rank that leaves the subdomain_deflation setup early (listed finding F-sdd-empty-subdomain)
            // does so while the others are still inside the constructor's collectives; the MPI runtime then aborts the job
            // (MPI_ERR_TRUNCATE), which is what the witness replay of that finding observes
            SDD S(comm, tup, prm);
            std::tie(iters, resid) = S(fl, xl);
        } else {
            typedef amgcl::mpi::make_solver<amgcl::mpi::block_preconditioner<amgcl::runtime::preconditioner<B>>, amgcl::runtime::mpi::solver::wrapper<B>> BP;
            boost::property_tree::ptree prm;
            prm.put_child("precond", lp);
            prm.put("solver.type", LSOLVER[si]); prm.put("solver.tol", 1e-8); prm.put("solver.maxiter", 300);
            std::unique_ptr<BP> Sq; bool bad = false; std::string w;
            try { Sq.reset(new BP(comm, tup, prm)); } catch (const std::exception &e) { bad = true; w = e.what(); }
            if (any_rank_failed(bad)) throw std::runtime_error(bad ? w : std::string(OTHER_RANK));
            std::tie(iters, resid) = (*Sq)(fl, xl);
        }
    } catch (const std::exception &e) { threw = true; cerr_ = std::string("exception on this rank: ") + e.what(); if (env_flag("VF_C12_TRACE")) std::cerr << "TRACE rank " << me << ": " << cerr_ << std::endl; }
    std::vector<cplx> X = gather_vec(xl);
    std::vector<double> all = allgatherv(std::vector<double>{double(iters), resid}, MPI_DOUBLE);
    mpi_checked([&]() {
        VF_REQUIRE(!threw, cerr_);
        for (int r = 1; r < k; ++r) VF_REQUIRE(all[2 * r] == all[0] && memcmp(&all[2 * r + 1], &all[1], 8) == 0, "rank " << r << " reports (" << all[2 * r] << ", " << all[2 * r + 1] << ") but rank 0 reports (" << all[0] << ", " << all[1] << ")");
        VF_REQUIRE(static_cast<ptrdiff_t>(X.size()) == n, "assembled solution has " << X.size() << " entries");
        std::vector<double> x(n); for (ptrdiff_t i = 0; i < n; ++i) x[i] = X[i].real();
        long double rt = true_relres(A, f, x);
        VF_REQUIRE(iters <= 300, "iteration count " << iters << " exceeds the configured maximum 300");
        c.nontrivial = iters >= 2 && active >= 2;
        if (std::isfinite(resid)) {
            double kappa = n <= 400 ? cond1_spd(A) : 1e4;
            long double allow = 0.01L * std::max<long double>(resid, rt) + 200.0L * 1.1e-16L * kappa * (iters + 2);
            VF_REQUIRE(std::abs(resid - rt) <= allow, "reported residual " << resid << " but true residual of the assembled solution is " << static_cast<double>(rt) << " (kappa=" << kappa << ", iters=" << iters << ")");
            if (resid < 1e-8) VF_REQUIRE(rt < 1.1e-8L, "reported " << resid << " < tol but true residual " << static_cast<double>(rt));
        }
        c.label(std::isfinite(resid) && resid < 1e-8 ? "converged" : "not-converged"); // one-level methods: no iteration-count claim
    });
}

// ------------------------------------------------------------------ repartitioning decision (merge partitioner)
// Every rank must take the same decision (a rank that disagrees enters different collectives: the setup dead-locks, which a
// time-bounded harness can only see as "inconclusive"), the decision must be the documented one, and the permutation returned
// by the partitioner must be a global permutation onto a contiguous column partition with fewer non-empty ranks.
static void prop_repart_decision(Tape &t, Ctx &c) {
    const int k = size_ref(), me = rank_ref();
    amgcl::mpi::communicator comm(MPI_COMM_WORLD);
    ptrdiff_t n = t.u(1, 300);
    std::vector<ptrdiff_t> dom = gen_partition(t, n, k);
    std::vector<ptrdiff_t> cnt; for (int r = 0; r < k; ++r) cnt.push_back(dom[r + 1] - dom[r]);
    typedef amgcl::mpi::partition::merge<B> Merge;
    Merge::params mp;
    mp.enable = !t.chance(1, 8);
    // thresholds at, just below and just above the per-rank row counts, so that ranks straddle it
    ptrdiff_t base = cnt[t.pick(cnt.size())];
    mp.min_per_proc = std::max<ptrdiff_t>(0, base + t.u(-1, 1)) + (t.chance(1, 4) ? t.u(0, 300) : 0);
    mp.shrink_ratio = static_cast<int>(t.u(2, 8));
    int non_empty = 0; ptrdiff_t min_n = std::numeric_limits<ptrdiff_t>::max(), max_n = 0;
    for (int r = 0; r < k; ++r) if (cnt[r]) { ++non_empty; min_n = std::min(min_n, cnt[r]); max_n = std::max(max_n, cnt[r]); }
    bool expected = mp.enable && non_empty > 1 && min_n <= mp.min_per_proc;
    c.desc << "repartition decision ranks=" << k << " n=" << n << " enable=" << mp.enable << " min_per_proc=" << mp.min_per_proc << " shrink_ratio=" << mp.shrink_ratio << " rows:";
    for (auto v : cnt) c.desc << v << ",";
    c.nontrivial = k >= 2 && non_empty >= 2 && min_n <= mp.min_per_proc && mp.min_per_proc < max_n; // ranks straddle the threshold
    c.label(expected ? "repartition" : "keep"); if (c.nontrivial) c.label("ranks-straddle-threshold");
    // identity-like matrix with the generated row partition
    Csr<double> Al; Al.n = cnt[me]; Al.m = n; Al.ptr.assign(Al.n + 1, 0);
    for (ptrdiff_t i = 0; i < Al.n; ++i) { Al.col.push_back(dom[me] + i); Al.val.push_back(1.0 + i); Al.ptr[i + 1] = i + 1; }
    auto tup = std::make_tuple(static_cast<size_t>(Al.n), Al.ptr, Al.col, Al.val);
    DM A(comm, tup, Al.n);
    Merge M(mp);
    int need = M.is_needed(A) ? 1 : 0;
    std::vector<double> all = allgatherv(std::vector<double>{double(need)}, MPI_DOUBLE);
    bool agree = true; for (int r = 1; r < k; ++r) agree = agree && all[r] == all[0];
    // the permutation is a collective call: only made when every rank agreed to make it
    std::string err; long nz = 0; Dense<cplx> I; ptrdiff_t new_cols = -1;
    if (agree && need) {
        auto Ip = M(A);
        new_cols = Ip->loc_cols();
        I = assemble<double>(*Ip, n, n, dom[me], nz, err);
    }
    std::vector<double> nc = allgatherv(std::vector<double>{double(new_cols)}, MPI_DOUBLE);
    mpi_checked([&]() {
        for (int r = 0; r < k; ++r) VF_REQUIRE(all[r] == all[0], "merge::is_needed() differs between ranks: rank 0 says " << all[0] << ", rank " << r << " says " << all[r] << " (ranks would enter different collectives)");
        VF_REQUIRE((need != 0) == expected, "merge::is_needed() = " << need << " but (non_empty > 1 && smallest non-empty domain <= min_per_proc) = " << expected);
        if (!need) return;
        VF_REQUIRE(err.empty(), err);
        ptrdiff_t tot = 0; int new_non_empty = 0;
        for (int r = 0; r < k; ++r) { VF_REQUIRE(nc[r] >= 0, "negative number of new local columns"); tot += static_cast<ptrdiff_t>(nc[r]); new_non_empty += nc[r] > 0; }
        VF_REQUIRE(tot == n, "the new column partition covers " << tot << " of " << n << " unknowns");
        VF_REQUIRE(new_non_empty <= non_empty && new_non_empty >= 1, "repartitioning went from " << non_empty << " to " << new_non_empty << " non-empty ranks");
        std::vector<int> hit(n, 0);
        for (ptrdiff_t i = 0; i < n; ++i) {
            int per_row = 0;
            for (ptrdiff_t j = 0; j < n; ++j) if (I(i, j) != cplx(0)) { ++per_row; ++hit[j]; VF_REQUIRE(I(i, j) == cplx(1), "permutation matrix entry (" << i << "," << j << ") = " << I(i, j)); }
            VF_REQUIRE(per_row == 1, "row " << i << " of the permutation matrix has " << per_row << " entries");
        }
        for (ptrdiff_t j = 0; j < n; ++j) VF_REQUIRE(hit[j] == 1, "column " << j << " of the permutation matrix is hit " << hit[j] << " times");
    });
}

static std::vector<Prop> props() {
    return {
        Prop("solve_block2", prop_solve_block<2>, 60, 400, 100, 60, {1}, 1, 2),
        Prop("one_level", prop_one_level, 80, 500, 100, 40, {1}, 1, 2),
        Prop("direct_block2", prop_direct_block<2>, 60, 400, 100, 40, {1}, 1, 1),
        Prop("direct_block3", prop_direct_block<3>, 30, 200, 100, 60, {1}, 1, 1),
        Prop("solve", prop_solve, 150, 1000, 100, 40, {1}, 2, 4),
        Prop("aggregation", prop_aggregation, 120, 800, 100, 40, {1}, 1, 2),
        Prop("smoothed", prop_smoothed, 80, 500, 100, 40, {1}, 1, 2),
        Prop("direct", prop_direct, 80, 500, 100, 20, {1}, 1, 1),
        Prop("repart_decision", prop_repart_decision, 150, 1500, 100, 10, {1}, 1, 1),
    };
}
static std::vector<Enum> enums() { return {}; }
VF_MPI_MAIN(props(), enums())
