// C11 — distributed matrix algebra equals serial algebra for every rank count and contiguous partition.
// Lock-step SPMD harness (see common/harness_mpi.hpp): every rank decodes the identical global case from the
// tape, slices out its strip, runs the distributed kernels, and the assembled results (gathered to every rank)
// are compared with dense serial references. Integer-valued data make every kernel exact -> bitwise comparison.
#include <complex>
#include <amgcl/backend/builtin.hpp>
#include <amgcl/adapter/crs_tuple.hpp>
#include <amgcl/value_type/complex.hpp>
#include <amgcl/value_type/static_matrix.hpp>
#include <amgcl/mpi/util.hpp>
#include <amgcl/mpi/distributed_matrix.hpp>
#include <amgcl/mpi/inner_product.hpp>
#include "../common/harness_mpi.hpp"
#include "../common/gen.hpp"
#include "../common/dense.hpp"
#include "../common/amgcl_util.hpp"
#include "mpi_util.hpp"

using namespace vf;
namespace ab = amgcl::backend;

template <class V>
void prop_algebra(Tape &t, Ctx &c) {
    typedef ab::builtin<V> B;
    typedef amgcl::mpi::distributed_matrix<B> DM;
    const int k = size_ref(), me = rank_ref();
    amgcl::mpi::communicator comm(MPI_COMM_WORLD);

    int cls = static_cast<int>(t.u(0, 2));
    ptrdiff_t hi = cls == 0 ? 6 : cls == 1 ? 20 : 60;
    bool square = t.b();
    ptrdiff_t n = t.u(0, hi), m = square ? n : t.u(0, hi), p = t.u(0, hi);
    Csr<V> A = gen_global<V>(t, n, m, square), Bm = gen_global<V>(t, m, p, false);
    std::vector<ptrdiff_t> rdom = gen_partition(t, n, k), cdom = square ? rdom : gen_partition(t, m, k), pdom = gen_partition(t, p, k);
    std::vector<V> xg = gen_vecV<V>(t, m), yg = gen_vecV<V>(t, n), zg = gen_vecV<V>(t, n);
    double alpha = static_cast<double>(t.u(-2, 2)), beta = static_cast<double>(t.u(-2, 2));
    double s = static_cast<double>(t.u(-3, 3));
    int iters = static_cast<int>(t.u(1, 8));

    int nonempty = 0; for (int r = 0; r < k; ++r) nonempty += rdom[r + 1] > rdom[r];
    long remote_entries = 0;
    for (int r = 0; r < k; ++r) for (ptrdiff_t i = rdom[r]; i < rdom[r + 1]; ++i) for (ptrdiff_t j = A.ptr[i]; j < A.ptr[i + 1]; ++j) if (A.col[j] < cdom[r] || A.col[j] >= cdom[r + 1]) ++remote_entries;
    c.nontrivial = nonempty >= 2 && remote_entries > 0;
    c.label(std::string("val:") + VT<V>::name());
    c.label(nonempty < k ? "has-empty-rank" : "all-ranks-own-rows");
    c.label(remote_entries ? "remote-columns" : "no-remote-columns");
    c.label(square ? "square" : "rectangular");
    c.desc << "dist<" << VT<V>::name() << "> ranks=" << k << " " << describe(A, "A") << " " << describe(Bm, "B") << " rows:";
    for (auto d : rdom) c.desc << d << ","; c.desc << " cols:"; for (auto d : cdom) c.desc << d << ",";
    c.desc << " remote_entries=" << remote_entries << " A=" << dump_small(A, 6);

    // ---- collective part (no early exits)
    std::string cerr_;
    Csr<V> Al = strip(A, rdom[me], rdom[me + 1]), Bl = strip(Bm, cdom[me], cdom[me + 1]);
    auto tupA = std::make_tuple(static_cast<size_t>(Al.n), Al.ptr, Al.col, Al.val);
    auto tupB = std::make_tuple(static_cast<size_t>(Bl.n), Bl.ptr, Bl.col, Bl.val);
    DM dA(comm, tupA, cdom[me + 1] - cdom[me]);
    DM dB(comm, tupB, pdom[me + 1] - pdom[me]);
    ptrdiff_t gr = dA.glob_rows(), gc = dA.glob_cols(), gz = dA.glob_nonzeros();
    long nz;
    Dense<cplx> asmA = assemble<V>(dA, n, m, rdom[me], nz, cerr_);
    auto dT = amgcl::mpi::transpose(dA);
    Dense<cplx> asmT = assemble<V>(*dT, m, n, cdom[me], nz, cerr_);
    ptrdiff_t t_gr = dT->glob_rows(), t_gc = dT->glob_cols(), t_lr = dT->loc_rows(), t_lc = dT->loc_cols();
    auto dP = amgcl::mpi::product(dA, dB);
    long nzP;
    Dense<cplx> asmP = assemble<V>(*dP, n, p, rdom[me], nzP, cerr_);
    // remote rows of B for the ghost columns of A
    auto RR = amgcl::mpi::remote_rows(dA.cpat(), dB);
    // scaled + sorted copy
    DM dS(comm, tupA, cdom[me + 1] - cdom[me]);
    amgcl::mpi::scale(dS, s);
    amgcl::mpi::sort_rows(dS);
    Dense<cplx> asmS = assemble<V>(dS, n, m, rdom[me], nz, cerr_);
    bool sorted_ok = true;
    for (auto M : {dS.local(), dS.remote()}) for (size_t i = 0; i < M->nrows; ++i) for (ptrdiff_t j = M->ptr[i] + 1; j < M->ptr[i + 1]; ++j) sorted_ok = sorted_ok && M->col[j - 1] <= M->col[j];
    // keep_src: the build-state parts must survive move_to_backend(bprm, true) unchanged and stay usable
    DM dK(comm, tupA, cdom[me + 1] - cdom[me]);
    dK.move_to_backend(typename B::params(), true);
    Dense<cplx> asmK = assemble<V>(dK, n, m, rdom[me], nz, cerr_);
    auto dKT = amgcl::mpi::transpose(dK);
    Dense<cplx> asmKT = assemble<V>(*dKT, m, n, cdom[me], nz, cerr_);
    auto dKP = amgcl::mpi::product(dK, dB);
    Dense<cplx> asmKP = assemble<V>(*dKP, n, p, rdom[me], nz, cerr_);
    // spectral radius (needs the diagonal: square matrices only)
    double g0 = 0, g1 = 0, p0 = 0, p1 = 0;
    if (square) {
        g0 = ab::spectral_radius<false>(dA, 0);
        g1 = ab::spectral_radius<true>(dA, 0);
        p0 = ab::spectral_radius<false>(dA, iters);
        p1 = ab::spectral_radius<true>(dA, iters);
    }
    // copy between backends (other index types), then to the backend for spmv
    typedef typename VT<V>::Other V2;   // the library copies distributed matrices between value precisions (mixed-precision setups)
    typedef ab::builtin<V2> B2;
    amgcl::mpi::distributed_matrix<B2> dC(dA);
    ptrdiff_t c_gr = dC.glob_rows(), c_gc = dC.glob_cols(), c_gz = dC.glob_nonzeros();
    // the copy is a full distributed matrix: its parts assemble to A, and it is a valid operand of transpose / product
    // (small integer values: exact in single precision as well)
    Dense<cplx> asmC = assemble<V>(dC, n, m, rdom[me], nz, cerr_);
    ptrdiff_t c_shift = dC.loc_col_shift();
    amgcl::mpi::distributed_matrix<B2> dCB(dB);
    auto dCP = amgcl::mpi::product(dC, dCB);
    Dense<cplx> asmCP = assemble<V>(*dCP, n, p, rdom[me], nz, cerr_);
    auto dCT = amgcl::mpi::transpose(dC);
    Dense<cplx> asmCT = assemble<V>(*dCT, m, n, cdom[me], nz, cerr_);
    dC.move_to_backend();
    dA.move_to_backend();
    std::vector<V> xl(xg.begin() + cdom[me], xg.begin() + cdom[me + 1]);
    std::vector<V> yl(yg.begin() + rdom[me], yg.begin() + rdom[me + 1]), zl(zg.begin() + rdom[me], zg.begin() + rdom[me + 1]);
    std::vector<V> y1 = yl; ab::spmv(alpha, dA, xl, beta, y1);
    std::vector<V2> xl2(xl.size()), y2s(yl.size());
    for (size_t i = 0; i < xl.size(); ++i) xl2[i] = static_cast<V2>(xl[i]);
    for (size_t i = 0; i < yl.size(); ++i) y2s[i] = static_cast<V2>(yl[i]);
    ab::spmv(static_cast<float>(alpha), dC, xl2, static_cast<float>(beta), y2s);
    std::vector<V> y2(yl.size()); for (size_t i = 0; i < yl.size(); ++i) y2[i] = static_cast<V>(y2s[i]);
    std::vector<V> r1(yl.size()); ab::residual(yl, dA, xl, r1);
    std::vector<V> y3 = yl; ab::spmv(alpha, dK, xl, beta, y3);
    amgcl::mpi::inner_product ip(comm);
    V dot = ip(yl, zl);
    std::vector<cplx> Y1 = gather_vec(y1), Y2 = gather_vec(y2), R1 = gather_vec(r1), Y3 = gather_vec(y3);
    // collective scalars from every rank
    std::vector<double> sc = {double(gr), double(gc), double(gz), g0, g1, p0, p1, VT<V>::c(dot).real(), VT<V>::c(dot).imag(), double(t_gr), double(t_gc), double(c_gr), double(c_gc), double(c_gz)};
    std::vector<double> allsc = allgatherv(sc, MPI_DOUBLE);
    // remote rows: pack (gcol of A's ghost column, column of B, value) and gather
    std::vector<double> rr;
    for (auto it = dA.cpat().remote_begin(); it != dA.cpat().remote_end(); ++it) {
        ptrdiff_t gcol = it->first; int li = std::get<1>(it->second);
        if (li < 0 || static_cast<size_t>(li) >= RR->nrows) { cerr_ = "remote_rows: ghost index out of range"; continue; }
        for (ptrdiff_t j = RR->ptr[li]; j < RR->ptr[li + 1]; ++j) { cplx v = VT<V>::c(RR->val[j]); rr.push_back(double(gcol)); rr.push_back(double(RR->col[j])); rr.push_back(v.real()); rr.push_back(v.imag()); }
    }

    // ---- local checks
    mpi_checked([&]() {
        VF_REQUIRE(cerr_.empty(), cerr_);
        Dense<cplx> DA = dense_of(A), DB = dense_of(Bm);
        const size_t NS = sc.size();
        for (int r = 0; r < k; ++r) {
            const double *q = &allsc[r * NS];
            VF_REQUIRE(q[0] == double(n) && q[1] == double(m) && q[2] == double(A.nnz()), "global sizes on rank " << r << ": " << q[0] << "x" << q[1] << " nnz " << q[2] << ", serial " << n << "x" << m << " nnz " << A.nnz());
            VF_REQUIRE(q[9] == double(m) && q[10] == double(n), "transpose: global sizes on rank " << r << ": " << q[9] << "x" << q[10]);
            VF_REQUIRE(q[11] == double(n) && q[12] == double(m) && q[13] == double(A.nnz()), "backend copy: global sizes on rank " << r);
            for (int e = 3; e <= 8; ++e) VF_REQUIRE(memcmp(&q[e], &allsc[e], 8) == 0, "collective scalar #" << e << " (3,4 Gershgorin; 5,6 power method; 7,8 inner product) differs between rank 0 (" << allsc[e] << ") and rank " << r << " (" << q[e] << ")");
        }
        VF_REQUIRE(t_lr == cdom[me + 1] - cdom[me] && t_lc == rdom[me + 1] - rdom[me], "transpose: local shape " << t_lr << "x" << t_lc);
        require_equal(asmA, DA, "distributed matrix assembled from its local/remote parts");
        Dense<cplx> DT(m, n); for (ptrdiff_t i = 0; i < n; ++i) for (ptrdiff_t j = 0; j < m; ++j) DT(j, i) = std::conj(DA(i, j));
        require_equal(asmT, DT, "mpi::transpose");
        require_equal(asmP, matmul(DA, DB), "mpi::product");
        VF_REQUIRE(c_shift == cdom[me], "backend copy: loc_col_shift() = " << c_shift << ", the column block of this rank starts at " << cdom[me]);
        require_equal(asmC, DA, "copy of the distributed matrix to another backend, assembled from its local/remote parts");
        require_equal(asmCP, matmul(DA, DB), "mpi::product of two backend copies");
        require_equal(asmCT, DT, "mpi::transpose of a backend copy");
        require_equal(asmK, DA, "build-state parts kept by move_to_backend(keep_src = true)");
        require_equal(asmKT, DT, "mpi::transpose after move_to_backend(keep_src = true)");
        require_equal(asmKP, matmul(DA, DB), "mpi::product after move_to_backend(keep_src = true)");
        Dense<cplx> DS = DA; for (auto &v : DS.a) v *= s;
        require_equal(asmS, DS, "mpi::scale + sort_rows");
        VF_REQUIRE(sorted_ok, "mpi::sort_rows left an unsorted row");
        // spmv / residual / inner product
        std::vector<cplx> X(m), Y(n), Z(n);
        for (ptrdiff_t i = 0; i < m; ++i) X[i] = VT<V>::c(xg[i]);
        for (ptrdiff_t i = 0; i < n; ++i) { Y[i] = VT<V>::c(yg[i]); Z[i] = VT<V>::c(zg[i]); }
        VF_REQUIRE(static_cast<ptrdiff_t>(Y1.size()) == n && static_cast<ptrdiff_t>(R1.size()) == n, "gathered vector length");
        for (ptrdiff_t i = 0; i < n; ++i) {
            cplx ax = 0; for (ptrdiff_t j = 0; j < m; ++j) ax += DA(i, j) * X[j];
            VF_REQUIRE(Y1[i] == alpha * ax + beta * Y[i], "distributed spmv row " << i << ": " << Y1[i] << " vs " << alpha * ax + beta * Y[i]);
            VF_REQUIRE(Y2[i] == Y1[i], "spmv after backend copy differs at row " << i);
            VF_REQUIRE(Y3[i] == Y1[i], "spmv after move_to_backend(keep_src = true) differs at row " << i);
            VF_REQUIRE(R1[i] == Y[i] - ax, "distributed residual row " << i << ": " << R1[i] << " vs " << Y[i] - ax);
        }
        cplx d = 0; for (ptrdiff_t i = 0; i < n; ++i) d += Y[i] * std::conj(Z[i]);
        VF_REQUIRE(cplx(allsc[7], allsc[8]) == d, "mpi::inner_product " << cplx(allsc[7], allsc[8]) << " vs serial " << d << " (conjugate-linear in the second argument)");
        if (square && n > 0) {
            double e0 = 0, e1 = 0;
            for (ptrdiff_t i = 0; i < n; ++i) { long double rs = 0; for (ptrdiff_t j = 0; j < m; ++j) rs += std::abs(DA(i, j)); e0 = std::max<double>(e0, rs); if (std::abs(DA(i, i)) > 0) e1 = std::max<double>(e1, rs / std::abs(DA(i, i))); }
            VF_REQUIRE(std::abs(allsc[3] - e0) <= 1e-13 * e0, "distributed Gershgorin estimate " << allsc[3] << " vs serial " << e0);
            bool alldiag = true; for (ptrdiff_t i = 0; i < n; ++i) alldiag = alldiag && std::abs(DA(i, i)) > 0;
            if (alldiag) VF_REQUIRE(std::abs(allsc[4] - e1) <= 1e-13 * e1, "distributed scaled Gershgorin estimate " << allsc[4] << " vs serial " << e1);
        }
        // remote rows (local data of this rank only)
        std::map<std::pair<ptrdiff_t, ptrdiff_t>, cplx> got;
        for (size_t q = 0; q + 3 < rr.size(); q += 4) got[{static_cast<ptrdiff_t>(rr[q]), static_cast<ptrdiff_t>(rr[q + 1])}] += cplx(rr[q + 2], rr[q + 3]);
        for (auto it = dA.cpat().remote_begin(); it != dA.cpat().remote_end(); ++it) {
            ptrdiff_t gcol = it->first;
            VF_REQUIRE(gcol >= 0 && gcol < m, "ghost column out of range");
            for (ptrdiff_t j = 0; j < p; ++j) {
                auto f = got.find({gcol, j});
                cplx v = f == got.end() ? cplx(0) : f->second;
                VF_REQUIRE(v == DB(gcol, j), "remote_rows: row " << gcol << " of B, column " << j << ": " << v << " vs " << DB(gcol, j));
            }
        }
    });
}

// ------------------------------------------------------------------ block values (2x2 static_matrix): spmv, residual, transpose, product, inner product
typedef amgcl::static_matrix<double, 2, 2> blk2;
typedef amgcl::static_matrix<double, 2, 1> rhs2;

static Csr<blk2> gen_global_blk(Tape &t, ptrdiff_t n, ptrdiff_t m) {
    Csr<double> S = gen_sparse_int(t, n, m, 1, t.b());
    Csr<blk2> A; A.n = n; A.m = m; A.ptr = S.ptr; A.col = S.col; A.val.resize(S.val.size());
    for (auto &v : A.val) { bool nz = false; for (int q = 0; q < 4; ++q) { v(q) = static_cast<double>(t.u(-3, 3)); nz = nz || v(q) != 0; } if (!nz) v(0) = 1; }
    return A;
}
static Dense<cplx> dense_blk(const Csr<blk2> &A) {
    Dense<cplx> D(A.n * 2, A.m * 2);
    for (ptrdiff_t i = 0; i < A.n; ++i) for (ptrdiff_t j = A.ptr[i]; j < A.ptr[i + 1]; ++j) for (int p = 0; p < 2; ++p) for (int q = 0; q < 2; ++q) D(2 * i + p, 2 * A.col[j] + q) += A.val[j](p, q);
    return D;
}
template <class DM>
static Dense<cplx> assemble_blk(const DM &A, ptrdiff_t gn, ptrdiff_t gm, ptrdiff_t row_beg, std::string &err) {
    std::vector<double> trip; // (grow, gcol, 4 values)
    auto loc = A.local(); auto rem = A.remote();
    ptrdiff_t shift = A.loc_col_shift();
    if (!loc || !rem) err = "matrix not in build state";
    else for (size_t i = 0; i < loc->nrows; ++i) {
        for (ptrdiff_t j = loc->ptr[i]; j < loc->ptr[i + 1]; ++j) { trip.push_back(double(row_beg + i)); trip.push_back(double(loc->col[j] + shift)); for (int q = 0; q < 4; ++q) trip.push_back(loc->val[j](q)); }
        for (ptrdiff_t j = rem->ptr[i]; j < rem->ptr[i + 1]; ++j) { trip.push_back(double(row_beg + i)); trip.push_back(double(rem->col[j])); for (int q = 0; q < 4; ++q) trip.push_back(rem->val[j](q)); }
    }
    std::vector<double> all = allgatherv(trip, MPI_DOUBLE);
    Dense<cplx> D(gn * 2, gm * 2);
    for (size_t k = 0; k + 5 < all.size(); k += 6) {
        ptrdiff_t r = static_cast<ptrdiff_t>(all[k]), c = static_cast<ptrdiff_t>(all[k + 1]);
        if (r < 0 || r >= gn || c < 0 || c >= gm) { err = "assembled entry out of range"; continue; }
        for (int p = 0; p < 2; ++p) for (int q = 0; q < 2; ++q) D(2 * r + p, 2 * c + q) += all[k + 2 + p * 2 + q];
    }
    return D;
}

static void prop_algebra_blk(Tape &t, Ctx &c) {
    typedef ab::builtin<blk2> BB;
    typedef amgcl::mpi::distributed_matrix<BB> DMB;
    const int k = size_ref(), me = rank_ref();
    amgcl::mpi::communicator comm(MPI_COMM_WORLD);
    int cls = static_cast<int>(t.u(0, 2));
    ptrdiff_t hi = cls == 0 ? 5 : cls == 1 ? 12 : 30;
    ptrdiff_t n = t.u(0, hi), m = t.b() ? n : t.u(0, hi), p = t.u(0, hi);
    Csr<blk2> A = gen_global_blk(t, n, m), Bm = gen_global_blk(t, m, p);
    std::vector<ptrdiff_t> rdom = gen_partition(t, n, k), cdom = (n == m && t.b()) ? rdom : gen_partition(t, m, k), pdom = gen_partition(t, p, k);
    std::vector<rhs2> xg(m), yg(n), zg(n);
    for (auto *v : {&xg, &yg, &zg}) for (auto &e : *v) { e(0) = static_cast<double>(t.u(-3, 3)); e(1) = static_cast<double>(t.u(-3, 3)); }
    double alpha = static_cast<double>(t.u(-2, 2)), beta = static_cast<double>(t.u(-2, 2));
    int nonempty = 0; for (int r = 0; r < k; ++r) nonempty += rdom[r + 1] > rdom[r];
    long remote_entries = 0;
    for (int r = 0; r < k; ++r) for (ptrdiff_t i = rdom[r]; i < rdom[r + 1]; ++i) for (ptrdiff_t j = A.ptr[i]; j < A.ptr[i + 1]; ++j) if (A.col[j] < cdom[r] || A.col[j] >= cdom[r + 1]) ++remote_entries;
    c.nontrivial = nonempty >= 2 && remote_entries > 0;
    c.label("val:blk2"); c.label(nonempty < k ? "has-empty-rank" : "all-ranks-own-rows"); c.label(remote_entries ? "remote-columns" : "no-remote-columns");
    c.desc << "dist<blk2> ranks=" << k << " " << describe(A, "A") << " " << describe(Bm, "B") << " rows:"; for (auto d : rdom) c.desc << d << ","; c.desc << " cols:"; for (auto d : cdom) c.desc << d << ",";
    std::string cerr_;
    Csr<blk2> Al = strip(A, rdom[me], rdom[me + 1]), Bl = strip(Bm, cdom[me], cdom[me + 1]);
    auto tupA = std::make_tuple(static_cast<size_t>(Al.n), Al.ptr, Al.col, Al.val);
    auto tupB = std::make_tuple(static_cast<size_t>(Bl.n), Bl.ptr, Bl.col, Bl.val);
    DMB dA(comm, tupA, cdom[me + 1] - cdom[me]);
    DMB dB(comm, tupB, pdom[me + 1] - pdom[me]);
    ptrdiff_t gr = dA.glob_rows(), gc = dA.glob_cols(), gz = dA.glob_nonzeros();
    auto dT = amgcl::mpi::transpose(dA);
    Dense<cplx> asmT = assemble_blk(*dT, m, n, cdom[me], cerr_);
    auto dP = amgcl::mpi::product(dA, dB);
    Dense<cplx> asmP = assemble_blk(*dP, n, p, rdom[me], cerr_);
    dA.move_to_backend();
    std::vector<rhs2> xl(xg.begin() + cdom[me], xg.begin() + cdom[me + 1]), yl(yg.begin() + rdom[me], yg.begin() + rdom[me + 1]), zl(zg.begin() + rdom[me], zg.begin() + rdom[me + 1]);
    std::vector<rhs2> y1 = yl; ab::spmv(alpha, dA, xl, beta, y1);
    std::vector<rhs2> r1(yl.size()); ab::residual(yl, dA, xl, r1);
    amgcl::mpi::inner_product ip(comm);
    double dot = ip(yl, zl);
    auto flat = [](const std::vector<rhs2> &v) { std::vector<double> f(v.size() * 2); for (size_t i = 0; i < v.size(); ++i) { f[2 * i] = v[i](0); f[2 * i + 1] = v[i](1); } return f; };
    std::vector<double> Y1 = allgatherv(flat(y1), MPI_DOUBLE), R1 = allgatherv(flat(r1), MPI_DOUBLE);
    std::vector<double> allsc = allgatherv(std::vector<double>{double(gr), double(gc), double(gz), dot}, MPI_DOUBLE);
    mpi_checked([&]() {
        VF_REQUIRE(cerr_.empty(), cerr_);
        Dense<cplx> DA = dense_blk(A), DB = dense_blk(Bm);
        for (int r = 0; r < k; ++r) {
            const double *q = &allsc[r * 4];
            VF_REQUIRE(q[0] == double(n) && q[1] == double(m) && q[2] == double(A.nnz()), "global sizes on rank " << r << ": " << q[0] << "x" << q[1] << " nnz " << q[2]);
            VF_REQUIRE(memcmp(&q[3], &allsc[3], 8) == 0, "inner product differs between rank 0 (" << allsc[3] << ") and rank " << r << " (" << q[3] << ")");
        }
        Dense<cplx> DT(2 * m, 2 * n); for (ptrdiff_t i = 0; i < 2 * n; ++i) for (ptrdiff_t j = 0; j < 2 * m; ++j) DT(j, i) = DA(i, j);
        require_equal(asmT, DT, "mpi::transpose (block values: blocks transposed)");
        require_equal(asmP, matmul(DA, DB), "mpi::product (block values)");
        VF_REQUIRE(static_cast<ptrdiff_t>(Y1.size()) == 2 * n && static_cast<ptrdiff_t>(R1.size()) == 2 * n, "gathered vector length");
        double d = 0;
        for (ptrdiff_t i = 0; i < n; ++i) for (int pq = 0; pq < 2; ++pq) {
            double ax = 0; for (ptrdiff_t j = 0; j < m; ++j) for (int q = 0; q < 2; ++q) ax += DA(2 * i + pq, 2 * j + q).real() * xg[j](q);
            VF_REQUIRE(Y1[2 * i + pq] == alpha * ax + beta * yg[i](pq), "distributed block spmv component " << 2 * i + pq << ": " << Y1[2 * i + pq] << " vs " << alpha * ax + beta * yg[i](pq));
            VF_REQUIRE(R1[2 * i + pq] == yg[i](pq) - ax, "distributed block residual component " << 2 * i + pq);
            d += yg[i](pq) * zg[i](pq);
        }
        VF_REQUIRE(allsc[3] == d, "mpi::inner_product on block vectors " << allsc[3] << " vs serial " << d);
    });
}

// exhaustive partitions: all compositions of n<=6 rows into k parts (zeros included) with a fixed family of matrices
static void prop_partitions(Tape &t, Ctx &c) {
    typedef ab::builtin<double> B;
    typedef amgcl::mpi::distributed_matrix<B> DM;
    const int k = size_ref(), me = rank_ref();
    amgcl::mpi::communicator comm(MPI_COMM_WORLD);
    ptrdiff_t n = t.u(1, 6);
    std::vector<ptrdiff_t> dom(k + 1, 0);
    for (int r = 1; r < k; ++r) dom[r] = std::max(dom[r - 1], static_cast<ptrdiff_t>(t.u(0, n)));
    dom[k] = n;
    int fam = static_cast<int>(t.u(0, 2)); // 0 tridiagonal, 1 dense, 2 arrow
    std::vector<std::map<ptrdiff_t, double>> rows(n);
    for (ptrdiff_t i = 0; i < n; ++i) for (ptrdiff_t j = 0; j < n; ++j) {
        bool on = fam == 1 || i == j || (fam == 0 && std::abs(i - j) == 1) || (fam == 2 && (i == 0 || j == 0));
        if (on) rows[i][j] = i == j ? 4.0 + i : -1.0 - ((i + 2 * j) % 3);
    }
    Csr<double> A = from_triplets<double>(n, n, rows);
    int nonempty = 0; for (int r = 0; r < k; ++r) nonempty += dom[r + 1] > dom[r];
    c.nontrivial = nonempty >= 2;
    c.desc << "partition ranks=" << k << " n=" << n << " fam=" << fam << " dom:"; for (auto d : dom) c.desc << d << ",";
    std::string cerr_;
    Csr<double> Al = strip(A, dom[me], dom[me + 1]);
    auto tup = std::make_tuple(static_cast<size_t>(Al.n), Al.ptr, Al.col, Al.val);
    DM dA(comm, tup);
    auto dT = amgcl::mpi::transpose(dA);
    auto dP = amgcl::mpi::product(dA, *dT);
    long nz;
    Dense<cplx> asmP = assemble<double>(*dP, n, n, dom[me], nz, cerr_);
    double g1 = ab::spectral_radius<true>(dA, 0);
    std::vector<double> all = allgatherv(std::vector<double>{g1}, MPI_DOUBLE);
    dA.move_to_backend();
    std::vector<double> x(Al.n), y(Al.n);
    for (ptrdiff_t i = 0; i < Al.n; ++i) x[i] = 1.0 + dom[me] + i;
    ab::spmv(1.0, dA, x, 0.0, y);
    std::vector<cplx> Y = gather_vec(y);
    mpi_checked([&]() {
        VF_REQUIRE(cerr_.empty(), cerr_);
        Dense<cplx> DA = dense_of(A), DT(n, n);
        for (ptrdiff_t i = 0; i < n; ++i) for (ptrdiff_t j = 0; j < n; ++j) DT(j, i) = DA(i, j);
        require_equal(asmP, matmul(DA, DT), "A * A^T over partition");
        for (ptrdiff_t i = 0; i < n; ++i) { cplx s = 0; for (ptrdiff_t j = 0; j < n; ++j) s += DA(i, j) * double(1 + j); VF_REQUIRE(Y[i] == s, "spmv row " << i << " over partition"); }
        double e1 = 0; for (ptrdiff_t i = 0; i < n; ++i) { double rs = 0; for (ptrdiff_t j = 0; j < n; ++j) rs += std::abs(DA(i, j)); e1 = std::max(e1, rs / std::abs(DA(i, i))); }
        for (int r = 0; r < k; ++r) VF_REQUIRE(std::abs(all[r] - e1) <= 1e-13 * e1, "Gershgorin estimate on rank " << r << ": " << all[r] << " vs serial " << e1);
    });
}

static std::vector<Prop> props() {
    return {
        Prop("algebra_double", prop_algebra<double>, 600, 4000, 100, 40, {1}, 1, 2),
        Prop("algebra_complex", prop_algebra<cplx>, 250, 1500, 100, 40, {1}, 1, 1),
        Prop("partitions", prop_partitions, 200, 1000, 100, 2, {1}, 1, 1),
        Prop("algebra_blk2", prop_algebra_blk, 300, 1500, 100, 60, {1}, 1, 1),
    };
}

static std::vector<Enum> enums() {
    Enum e; e.name = "all_partitions"; e.prop = "partitions";
    e.scope_quick = "all contiguous partitions (compositions with zeros) of n<=5 rows over the launched ranks x 3 matrix families";
    e.scope_thorough = "all contiguous partitions (compositions with zeros) of n<=6 rows over the launched ranks x 3 matrix families";
    e.gen = [](const std::string &tier, const Emit &emit) {
        int k = size_ref();
        int nmax = tier == "thorough" ? 6 : 5;
        for (int n = 1; n <= nmax; ++n) {
            // non-decreasing cut sequences d_1<=...<=d_{k-1} in [0,n]; the decoder takes max(prev, word % (n+1))
            std::vector<uint32_t> cut(k > 1 ? k - 1 : 0, 0);
            while (true) {
                for (uint32_t fam = 0; fam < 3; ++fam) { std::vector<uint32_t> w; w.push_back(n - 1); for (auto d : cut) w.push_back(d); w.push_back(fam); emit(w); }
                int q = static_cast<int>(cut.size()) - 1;
                while (q >= 0 && cut[q] == static_cast<uint32_t>(n)) --q;
                if (q < 0) break;
                ++cut[q];
                for (size_t r = q + 1; r < cut.size(); ++r) cut[r] = cut[q];
            }
        }
    };
    return {e};
}

VF_MPI_MAIN(props(), enums())
