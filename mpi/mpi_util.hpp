// Shared helpers of the MPI harnesses (C11, C12): value-type traits, strips, assembly of distributed objects.
#pragma once
#include <complex>
#include <map>
#include <amgcl/backend/builtin.hpp>
#include <amgcl/adapter/crs_tuple.hpp>
#include <amgcl/value_type/complex.hpp>
#include <amgcl/mpi/util.hpp>
#include <amgcl/mpi/distributed_matrix.hpp>
#include "../common/harness_mpi.hpp"
#include "../common/gen.hpp"
#include "../common/dense.hpp"

namespace vf {
typedef std::complex<double> cplx;

template <class V> struct VT;
template <> struct VT<double> {
    static double gen(Tape &t, int m) { double v = static_cast<double>(t.u(1, m)); return t.b() ? -v : v; }
    static cplx c(const double &v) { return cplx(v, 0); }
    static MPI_Datatype dt() { return MPI_DOUBLE; }
    static const int W = 1;
    static void pack(const double &v, double *o) { o[0] = v; }
    static const char *name() { return "double"; }
    typedef float Other;
    static cplx co(const float &v) { return cplx(v, 0); }
};
template <> struct VT<cplx> {
    static cplx gen(Tape &t, int m) { double re = static_cast<double>(t.u(-m, m)), im = static_cast<double>(t.u(-m, m)); if (re == 0 && im == 0) re = 1; return cplx(re, im); }
    static cplx c(const cplx &v) { return v; }
    static const int W = 2;
    static void pack(const cplx &v, double *o) { o[0] = v.real(); o[1] = v.imag(); }
    static const char *name() { return "complex"; }
    typedef std::complex<float> Other;
    static cplx co(const std::complex<float> &v) { return cplx(v.real(), v.imag()); }
};

template <class V>
Csr<V> gen_global(Tape &t, ptrdiff_t n, ptrdiff_t m, bool want_diag) {
    Csr<double> S = gen_sparse_int(t, n, m, 1, t.b());
    std::vector<std::map<ptrdiff_t, V>> rows(n);
    Csr<V> A; A.n = n; A.m = m; A.ptr.assign(n + 1, 0);
    for (ptrdiff_t i = 0; i < n; ++i) {
        bool has = false;
        for (ptrdiff_t j = S.ptr[i]; j < S.ptr[i + 1]; ++j) { A.col.push_back(S.col[j]); A.val.push_back(VT<V>::gen(t, 5)); has = has || S.col[j] == i; }
        if (want_diag && !has && i < m) { A.col.push_back(i); A.val.push_back(VT<V>::gen(t, 5)); }
        A.ptr[i + 1] = static_cast<ptrdiff_t>(A.col.size());
    }
    return A;
}

template <class V>
Dense<cplx> dense_of(const Csr<V> &A) {
    Dense<cplx> D(A.n, A.m);
    for (ptrdiff_t i = 0; i < A.n; ++i) for (ptrdiff_t j = A.ptr[i]; j < A.ptr[i + 1]; ++j) D(i, A.col[j]) += VT<V>::c(A.val[j]);
    return D;
}

// local strip [rb,re) of a global matrix, global column numbers kept
template <class V>
Csr<V> strip(const Csr<V> &A, ptrdiff_t rb, ptrdiff_t re) {
    Csr<V> S; S.n = re - rb; S.m = A.m; S.ptr.assign(S.n + 1, 0);
    for (ptrdiff_t i = rb; i < re; ++i) {
        for (ptrdiff_t j = A.ptr[i]; j < A.ptr[i + 1]; ++j) { S.col.push_back(A.col[j]); S.val.push_back(A.val[j]); }
        S.ptr[i - rb + 1] = static_cast<ptrdiff_t>(S.col.size());
    }
    return S;
}

// assemble a distributed matrix (build state: local part with local columns, remote part with global columns)
// into a dense global matrix on every rank. row_dom / col_dom are the expected partitions.
template <class V, class DM>
Dense<cplx> assemble(const DM &A, ptrdiff_t gn, ptrdiff_t gm, ptrdiff_t row_beg, long &nnz_total, std::string &err) {
    std::vector<double> trip; // (grow, gcol, re, im)
    auto loc = A.local(); auto rem = A.remote();
    ptrdiff_t shift = A.loc_col_shift();
    if (!loc || !rem) { err = "matrix not in build state"; }
    else {
        for (size_t i = 0; i < loc->nrows; ++i) {
            for (ptrdiff_t j = loc->ptr[i]; j < loc->ptr[i + 1]; ++j) { cplx v = VT<V>::c(loc->val[j]); trip.push_back(double(row_beg + i)); trip.push_back(double(loc->col[j] + shift)); trip.push_back(v.real()); trip.push_back(v.imag());
                if (loc->col[j] < 0 || static_cast<size_t>(loc->col[j]) >= loc->ncols) err = "local column out of range"; }
            for (ptrdiff_t j = rem->ptr[i]; j < rem->ptr[i + 1]; ++j) { cplx v = VT<V>::c(rem->val[j]); trip.push_back(double(row_beg + i)); trip.push_back(double(rem->col[j])); trip.push_back(v.real()); trip.push_back(v.imag());
                if (rem->col[j] >= shift && rem->col[j] < shift + static_cast<ptrdiff_t>(loc->ncols)) err = "remote part holds a locally owned column"; }
        }
    }
    std::vector<double> all = allgatherv(trip, MPI_DOUBLE);
    Dense<cplx> D(gn, gm);
    nnz_total = static_cast<long>(all.size() / 4);
    for (size_t k = 0; k + 3 < all.size(); k += 4) {
        ptrdiff_t r = static_cast<ptrdiff_t>(all[k]), c = static_cast<ptrdiff_t>(all[k + 1]);
        if (r < 0 || r >= gn || c < 0 || c >= gm) { err = "assembled entry out of range"; continue; }
        D(r, c) += cplx(all[k + 2], all[k + 3]);
    }
    return D;
}

inline void require_equal(const Dense<cplx> &got, const Dense<cplx> &ref, const std::string &what) {
    VF_REQUIRE(got.n == ref.n && got.m == ref.m, what << ": shape");
    for (ptrdiff_t i = 0; i < ref.n; ++i) for (ptrdiff_t j = 0; j < ref.m; ++j)
        VF_REQUIRE(got(i, j) == ref(i, j), what << ": entry (" << i << "," << j << ") = " << got(i, j) << ", serial reference " << ref(i, j));
}

template <class V>
std::vector<V> gen_vecV(Tape &t, size_t n) { std::vector<V> x(n); for (auto &v : x) v = VT<V>::gen(t, 4); return x; }

template <class V>
std::vector<cplx> gather_vec(const std::vector<V> &loc) {
    std::vector<double> p(loc.size() * 2);
    for (size_t i = 0; i < loc.size(); ++i) { cplx v = VT<V>::c(loc[i]); p[2 * i] = v.real(); p[2 * i + 1] = v.imag(); }
    std::vector<double> all = allgatherv(p, MPI_DOUBLE);
    std::vector<cplx> g(all.size() / 2);
    for (size_t i = 0; i < g.size(); ++i) g[i] = cplx(all[2 * i], all[2 * i + 1]);
    return g;
}


} // namespace vf
