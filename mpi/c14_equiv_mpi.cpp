// C14 (MPI part) — the distributed run-time interface (property-tree selected coarsening / relaxation / solver / direct
// solver / partitioner wrappers of amgcl/mpi/*/runtime.hpp) behaves bitwise identically to the same distributed components
// composed at compile time with the same parameter values, on every rank count and row distribution.
// Lock-step SPMD harness (common/harness_mpi.hpp): every rank decodes the same tape.
#include <boost/property_tree/ptree.hpp>
#include <amgcl/backend/builtin.hpp>
#include <amgcl/adapter/crs_tuple.hpp>
#include <amgcl/mpi/util.hpp>
#include <amgcl/mpi/make_solver.hpp>
#include <amgcl/mpi/amg.hpp>
#include <amgcl/mpi/coarsening/runtime.hpp>
#include <amgcl/mpi/coarsening/aggregation.hpp>
#include <amgcl/mpi/coarsening/smoothed_aggregation.hpp>
#include <amgcl/mpi/relaxation/runtime.hpp>
#include <amgcl/mpi/relaxation/spai0.hpp>
#include <amgcl/mpi/relaxation/spai1.hpp>
#include <amgcl/mpi/relaxation/chebyshev.hpp>
#include <amgcl/mpi/relaxation/damped_jacobi.hpp>
#include <amgcl/mpi/relaxation/gauss_seidel.hpp>
#include <amgcl/mpi/relaxation/ilu0.hpp>
#include <amgcl/mpi/relaxation/iluk.hpp>
#include <amgcl/mpi/relaxation/ilut.hpp>
#include <amgcl/mpi/solver/runtime.hpp>
#include <amgcl/mpi/solver/cg.hpp>
#include <amgcl/mpi/solver/bicgstab.hpp>
#include <amgcl/mpi/solver/gmres.hpp>
#include <amgcl/mpi/direct_solver/runtime.hpp>
#include <amgcl/mpi/direct_solver/skyline_lu.hpp>
#include <amgcl/mpi/partition/runtime.hpp>
#include <amgcl/mpi/partition/merge.hpp>
#include "../common/harness_mpi.hpp"
#include "../common/gen.hpp"
#include "../common/amgcl_util.hpp"
#include "mpi_util.hpp"

using namespace vf;
namespace ab = amgcl::backend;
namespace am = amgcl::mpi;
typedef ab::builtin<double> B;
typedef boost::property_tree::ptree ptree;

typedef am::amg<B, amgcl::runtime::mpi::coarsening::wrapper<B>, amgcl::runtime::mpi::relaxation::wrapper<B>,
                amgcl::runtime::mpi::direct::solver<double>, amgcl::runtime::mpi::partition::wrapper<B>> RtAMG;
typedef am::make_solver<RtAMG, amgcl::runtime::mpi::solver::wrapper<B>> RtSolver;

struct RunOut {
    bool threw = false; std::string what;
    size_t iters = 0; double resid = 0;
    std::vector<double> x, px; // local part of the solution and of one preconditioner application
};

template <class Solver, class Prm>
static RunOut run(am::communicator comm, const Csr<double> &Al, const std::vector<double> &fl, const Prm &prm) {
    RunOut o;
    try {
        auto tup = std::make_tuple(static_cast<size_t>(Al.n), Al.ptr, Al.col, Al.val);
        // a setup exception that only some ranks see (the coarse direct solver factorises on its master rank) must not send
        // the ranks into different collectives: agree on it before anybody applies the preconditioner
        std::unique_ptr<Solver> Sp; bool bad = false; std::string w;
        try { Sp.reset(new Solver(comm, tup, prm)); } catch (const std::exception &e) { bad = true; w = e.what(); }
        int a = bad ? 1 : 0, b = 0; MPI_Allreduce(&a, &b, 1, MPI_INT, MPI_MAX, MPI_COMM_WORLD);
        if (b) throw std::runtime_error(bad ? w : std::string("setup failed on another rank"));
        Solver &S = *Sp;
        o.px.assign(Al.n, 0.0);
        S.precond().apply(fl, o.px);
        o.x.assign(Al.n, 0.0);
        std::tie(o.iters, o.resid) = S(fl, o.x);
    } catch (const std::exception &e) { o.threw = true; o.what = e.what(); }
    return o;
}

static const char *COARSE[] = {"smoothed_aggregation", "aggregation"};
static const char *RELAX[] = {"spai0", "chebyshev", "damped_jacobi", "gauss_seidel", "ilu0", "iluk", "ilut", "spai1"};
static const char *SOLVER[] = {"cg", "bicgstab", "gmres"};

template <template <class> class C, template <class> class R, template <class, class> class S>
struct Typed { typedef am::make_solver<am::amg<B, C<B>, R<B>>, S<B, am::inner_product>> type; };

template <template <class> class C, template <class> class R>
static RunOut typed_solver(int si, am::communicator comm, const Csr<double> &Al, const std::vector<double> &fl, const ptree &pt) {
    switch (si) {
    case 0: { typedef typename Typed<C, R, am::solver::cg>::type T; return run<T>(comm, Al, fl, typename T::params(pt)); }
    case 1: { typedef typename Typed<C, R, am::solver::bicgstab>::type T; return run<T>(comm, Al, fl, typename T::params(pt)); }
    default: { typedef typename Typed<C, R, am::solver::gmres>::type T; return run<T>(comm, Al, fl, typename T::params(pt)); }
    }
}
template <template <class> class C>
static RunOut typed_relax(int ri, int si, am::communicator comm, const Csr<double> &Al, const std::vector<double> &fl, const ptree &pt) {
    switch (ri) {
    case 0: return typed_solver<C, am::relaxation::spai0>(si, comm, Al, fl, pt);
    case 1: return typed_solver<C, am::relaxation::chebyshev>(si, comm, Al, fl, pt);
    case 2: return typed_solver<C, am::relaxation::damped_jacobi>(si, comm, Al, fl, pt);
    case 3: return typed_solver<C, am::relaxation::gauss_seidel>(si, comm, Al, fl, pt);
    case 4: return typed_solver<C, am::relaxation::ilu0>(si, comm, Al, fl, pt);
    case 5: return typed_solver<C, am::relaxation::iluk>(si, comm, Al, fl, pt);
    case 6: return typed_solver<C, am::relaxation::ilut>(si, comm, Al, fl, pt);
    default: return typed_solver<C, am::relaxation::spai1>(si, comm, Al, fl, pt);
    }
}

static bool same_bits(double a, double b) { return memcmp(&a, &b, 8) == 0; }

static void prop_equiv_mpi(Tape &t, Ctx &c) {
    const int k = size_ref(), me = rank_ref();
    am::communicator comm(MPI_COMM_WORLD);
    Graph g = gen_graph(t, t.chance(1, 3) ? 300 : 100, 1, 5);
    MmatInfo info;
    Csr<double> A = gen_mmat(t, g, 100.0, true, &info); // variable coefficients: the largest Gershgorin row sum is not on every rank
    const ptrdiff_t n = A.n;
    std::vector<ptrdiff_t> dom = gen_partition(t, n, k);
    int ci = static_cast<int>(t.u(0, 1)), ri = static_cast<int>(t.u(0, 7)), si = static_cast<int>(t.u(0, 2));
    ptree pt; std::ostringstream log; int nset = 0;
    auto put = [&](const std::string &key, auto v) { pt.put(key, v); log << " " << key << "=" << v; ++nset; };
    // hierarchy
    put("precond.coarse_enough", static_cast<int>(t.u(5, 60)));
    if (t.b()) put("precond.npre", static_cast<int>(t.u(1, 3)));
    if (t.b()) put("precond.npost", static_cast<int>(t.u(1, 3)));
    if (t.chance(1, 4)) put("precond.direct_coarse", false);
    if (t.chance(1, 4)) { put("precond.max_levels", static_cast<int>(t.u(1, 3))); if (t.b()) put("precond.ncycle", 2); }
    if (t.chance(1, 4)) put("precond.pre_cycles", 2);
    if (t.b()) { put("precond.repart.enable", true); put("precond.repart.min_per_proc", static_cast<int>(t.u(5, 200))); if (t.b()) put("precond.repart.shrink_ratio", static_cast<int>(t.u(2, 8))); }
    // coarsening
    if (t.b()) put("precond.coarsening.aggr.eps_strong", t.uni(0.0, 0.3));
    if (ci == 0) {
        if (t.b()) put("precond.coarsening.relax", t.uni(0.5, 1.5));
        if (t.b()) { put("precond.coarsening.estimate_spectral_radius", true); if (t.b()) put("precond.coarsening.power_iters", static_cast<int>(t.u(0, 6))); }
    } else if (t.b()) put("precond.coarsening.over_interp", t.uni(1.0, 2.5));
    // relaxation
    const std::string rp = "precond.relax.";
    switch (ri) {
    case 1:
        if (t.b()) put(rp + "degree", static_cast<int>(t.u(1, 6)));
        if (t.b()) put(rp + "power_iters", static_cast<int>(t.u(0, 8)));
        if (t.b()) put(rp + "scale", true);
        if (t.b()) put(rp + "lower", t.uni(0.02, 0.3));
        if (t.b()) put(rp + "higher", t.uni(0.9, 1.2));
        break;
    case 2: if (t.b()) put(rp + "damping", t.uni(0.4, 1.0)); break;
    case 3: if (t.b()) put(rp + "serial", true); break;
    case 4: if (t.b()) put(rp + "damping", t.uni(0.5, 1.0)); if (t.b()) put(rp + "solve.serial", t.b()); break;
    case 5: if (t.b()) put(rp + "k", static_cast<int>(t.u(0, 2))); if (t.b()) put(rp + "damping", t.uni(0.5, 1.0)); break;
    case 6: if (t.b()) put(rp + "p", t.uni(1.0, 3.0)); if (t.b()) put(rp + "tau", t.uni(1e-3, 1e-1)); break;
    default: break;
    }
    // solver
    put("solver.maxiter", static_cast<int>(t.u(1, 40)));
    if (t.b()) put("solver.tol", t.logu(1e-10, 1e-3));
    if (si == 2 && t.b()) put("solver.M", static_cast<int>(t.u(1, 15)));
    if (si != 0 && t.chance(1, 3)) put("solver.pside", t.b() ? "left" : "right");
    std::vector<double> f = gen_vec(t, n, 2);
    if (n) f[0] = 1.0;

    ptree rt = pt;
    rt.put("precond.coarsening.type", COARSE[ci]);
    rt.put("precond.relax.type", RELAX[ri]);
    rt.put("solver.type", SOLVER[si]);
    if (t.b()) rt.put("precond.direct.type", "skyline_lu");
    if (t.b()) rt.put("precond.repart.type", "merge");

    int active = 0; for (int r = 0; r < k; ++r) active += dom[r + 1] > dom[r];
    c.label(std::string("c:") + COARSE[ci]); c.label(std::string("r:") + RELAX[ri]); c.label(std::string("s:") + SOLVER[si]);
    c.label(active < k ? "has-empty-rank" : "all-ranks-active");
    c.desc << "mpi equivalence ranks=" << k << " " << SOLVER[si] << "+" << COARSE[ci] << "/" << RELAX[ri] << " " << g.family << " n=" << n << " nnz=" << A.nnz()
           << " contrast=" << info.contrast << " set=" << nset << ":" << log.str() << " dom:";
    for (auto d : dom) c.desc << d << ",";

    Csr<double> Al = strip(A, dom[me], dom[me + 1]);
    std::vector<double> fl(f.begin() + dom[me], f.begin() + dom[me + 1]);
    RunOut ct = ci == 0 ? typed_relax<am::coarsening::smoothed_aggregation>(ri, si, comm, Al, fl, pt)
                         : typed_relax<am::coarsening::aggregation>(ri, si, comm, Al, fl, pt);
    RunOut ro = run<RtSolver>(comm, Al, fl, rt);

    mpi_checked([&]() {
        VF_REQUIRE(ct.threw == ro.threw, (ro.threw ? "run-time interface threw '" + ro.what + "' but the compile-time composition did not" : "compile-time composition threw '" + ct.what + "' but the run-time interface did not"));
        if (ct.threw) { VF_REQUIRE(ct.what == ro.what, "exception texts differ: '" << ro.what << "' (run-time) vs '" << ct.what << "' (compile-time)"); c.label("outcome:exception"); return; }
        c.label("outcome:solved");
        c.nontrivial = active >= 2 && ct.iters >= 2 && nset >= 3;
        for (size_t i = 0; i < ct.px.size(); ++i)
            VF_REQUIRE(same_bits(ct.px[i], ro.px[i]), "preconditioner application differs on rank " << me << " at local row " << i << ": " << ro.px[i] << " (run-time) vs " << ct.px[i] << " (compile-time)");
        VF_REQUIRE(ct.iters == ro.iters, "iteration counts differ: " << ro.iters << " (run-time) vs " << ct.iters << " (compile-time)");
        VF_REQUIRE(same_bits(ct.resid, ro.resid), "residuals differ: " << ro.resid << " (run-time) vs " << ct.resid << " (compile-time)");
        for (size_t i = 0; i < ct.x.size(); ++i)
            VF_REQUIRE(same_bits(ct.x[i], ro.x[i]), "solution differs on rank " << me << " at local row " << i << ": " << ro.x[i] << " (run-time) vs " << ct.x[i] << " (compile-time), iterations " << ct.iters);
    });
}

static std::vector<Prop> props() {
    return {Prop("equiv_mpi", prop_equiv_mpi, 120, 1200, 100, 40, {1}, 2, 4)};
}
static std::vector<Enum> enums() { return {}; }
VF_MPI_MAIN(props(), enums())
