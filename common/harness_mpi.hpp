// Lock-step SPMD variant of the harness: every rank runs the same rapidcheck executable with the same RC_PARAMS
// seed, so all ranks generate (and shrink) the identical tape; each rank slices out its part of the case.
// A property function must (1) run all collective library calls unconditionally, (2) do its checks without
// collectives inside try { ... } catch (vf::Fail&), and (3) call vf::mpi_agree(err) which makes every rank
// take the same pass/fail decision (MPI_Allreduce) before rapidcheck sees it, so shrinking stays in sync.
#pragma once
#include <mpi.h>
#include "harness.hpp"

namespace vf {

// collective: throws vf::Fail on every rank if any rank reported an error (message of the lowest failing rank)
inline void mpi_agree(const std::string &local_err) {
    int bad = local_err.empty() ? size_ref() : rank_ref();
    int first = 0;
    MPI_Allreduce(&bad, &first, 1, MPI_INT, MPI_MIN, MPI_COMM_WORLD);
    if (first >= size_ref()) return;
    int len = rank_ref() == first ? static_cast<int>(local_err.size()) : 0;
    MPI_Bcast(&len, 1, MPI_INT, first, MPI_COMM_WORLD);
    std::string msg(static_cast<size_t>(len), ' ');
    if (rank_ref() == first) msg = local_err;
    MPI_Bcast(&msg[0], len, MPI_CHAR, first, MPI_COMM_WORLD);
    std::ostringstream os; os << "[rank " << first << " of " << size_ref() << "] " << msg;
    throw Fail(os.str());
}

// run local (collective-free) checks and agree on the verdict
template <class F>
void mpi_checked(F &&f) {
    std::string err;
    try { f(); } catch (const Fail &e) { err = e.what(); } catch (const std::exception &e) { err = std::string("unexpected exception: ") + e.what(); }
    mpi_agree(err);
}

// contiguous partition of n items over the ranks, generated from the tape (identical on all ranks); zeros allowed
inline std::vector<ptrdiff_t> gen_partition(Tape &t, ptrdiff_t n, int k, bool allow_empty = true) {
    std::vector<ptrdiff_t> cuts;
    int mode = static_cast<int>(t.u(0, 2)); // 0 balanced, 1 random cuts (empty parts possible), 2 everything on one rank
    std::vector<ptrdiff_t> dom(k + 1, 0);
    if (mode == 0 || !allow_empty) {
        for (int r = 0; r <= k; ++r) dom[r] = n * r / k;
    } else if (mode == 1) {
        for (int r = 1; r < k; ++r) cuts.push_back(t.u(0, n));
        std::sort(cuts.begin(), cuts.end());
        for (int r = 1; r < k; ++r) dom[r] = cuts[r - 1];
        dom[k] = n;
    } else {
        int owner = static_cast<int>(t.pick(k));
        for (int r = 0; r <= k; ++r) dom[r] = r <= owner ? 0 : n;
    }
    return dom;
}

// gather variable-length local arrays from all ranks to all ranks (concatenated in rank order)
template <class T>
std::vector<T> allgatherv(const std::vector<T> &loc, MPI_Datatype dt) {
    int k = size_ref(), n = static_cast<int>(loc.size());
    std::vector<int> cnt(k), dsp(k + 1, 0);
    MPI_Allgather(&n, 1, MPI_INT, cnt.data(), 1, MPI_INT, MPI_COMM_WORLD);
    for (int r = 0; r < k; ++r) dsp[r + 1] = dsp[r] + cnt[r];
    std::vector<T> all(static_cast<size_t>(dsp[k]));
    T dummy = T();
    MPI_Allgatherv(n ? const_cast<T *>(loc.data()) : &dummy, n, dt, all.empty() ? &dummy : all.data(), cnt.data(), dsp.data(), dt, MPI_COMM_WORLD);
    return all;
}

} // namespace vf

#define VF_MPI_MAIN(PROPS, ENUMS)                                                                        \
    int main(int argc, char **argv) {                                                                    \
        int provided = 0;                                                                                \
        MPI_Init_thread(&argc, &argv, MPI_THREAD_FUNNELED, &provided);                                   \
        MPI_Comm_rank(MPI_COMM_WORLD, &vf::rank_ref());                                                  \
        MPI_Comm_size(MPI_COMM_WORLD, &vf::size_ref());                                                  \
        int rc;                                                                                          \
        {                                                                                                \
            vf::Runner r; r.props = PROPS; r.enums = ENUMS;                                              \
            rc = r.main(argc, argv);                                                                     \
        }                                                                                                \
        int worst = 0;                                                                                   \
        MPI_Allreduce(&rc, &worst, 1, MPI_INT, MPI_MAX, MPI_COMM_WORLD);                                 \
        MPI_Finalize();                                                                                  \
        return worst;                                                                                    \
    }
