// Independent dense reference algebra (no amgcl code).
#pragma once
#include <cmath>
#include <complex>
#include <cstddef>
#include <vector>
#include "gen.hpp"

namespace vf {

template <class T = long double>
struct Dense {
    ptrdiff_t n = 0, m = 0;
    std::vector<T> a;
    Dense() {}
    Dense(ptrdiff_t n_, ptrdiff_t m_) : n(n_), m(m_), a(static_cast<size_t>(n_ * m_), T()) {}
    T &operator()(ptrdiff_t i, ptrdiff_t j) { return a[static_cast<size_t>(i * m + j)]; }
    const T &operator()(ptrdiff_t i, ptrdiff_t j) const { return a[static_cast<size_t>(i * m + j)]; }
};

template <class T, class V>
Dense<T> to_dense(const Csr<V> &A) {
    Dense<T> D(A.n, A.m);
    for (ptrdiff_t i = 0; i < A.n; ++i)
        for (ptrdiff_t j = A.ptr[i]; j < A.ptr[i + 1]; ++j) D(i, A.col[j]) += static_cast<T>(A.val[j]);
    return D;
}

template <class T>
Dense<T> matmul(const Dense<T> &A, const Dense<T> &B) {
    Dense<T> C(A.n, B.m);
    for (ptrdiff_t i = 0; i < A.n; ++i)
        for (ptrdiff_t k = 0; k < A.m; ++k) {
            T a = A(i, k);
            if (a == T()) continue;
            for (ptrdiff_t j = 0; j < B.m; ++j) C(i, j) += a * B(k, j);
        }
    return C;
}

template <class T>
Dense<T> transposed(const Dense<T> &A) {
    Dense<T> C(A.m, A.n);
    for (ptrdiff_t i = 0; i < A.n; ++i) for (ptrdiff_t j = 0; j < A.m; ++j) C(j, i) = A(i, j);
    return C;
}

template <class T>
std::vector<T> matvec(const Dense<T> &A, const std::vector<T> &x) {
    std::vector<T> y(static_cast<size_t>(A.n), T());
    for (ptrdiff_t i = 0; i < A.n; ++i) { T s = T(); for (ptrdiff_t j = 0; j < A.m; ++j) s += A(i, j) * x[static_cast<size_t>(j)]; y[static_cast<size_t>(i)] = s; }
    return y;
}

// Solve A x = b by Gaussian elimination with partial pivoting (long double); returns false if singular
template <class T>
bool dense_solve(Dense<T> A, std::vector<T> b, std::vector<T> &x) {
    ptrdiff_t n = A.n;
    for (ptrdiff_t k = 0; k < n; ++k) {
        ptrdiff_t p = k; auto best = std::abs(A(k, k));
        for (ptrdiff_t i = k + 1; i < n; ++i) if (std::abs(A(i, k)) > best) { best = std::abs(A(i, k)); p = i; }
        if (best == 0) return false;
        if (p != k) { for (ptrdiff_t j = 0; j < n; ++j) std::swap(A(k, j), A(p, j)); std::swap(b[k], b[p]); }
        for (ptrdiff_t i = k + 1; i < n; ++i) {
            T f = A(i, k) / A(k, k);
            if (f == T()) continue;
            for (ptrdiff_t j = k; j < n; ++j) A(i, j) -= f * A(k, j);
            b[i] -= f * b[k];
        }
    }
    x.assign(static_cast<size_t>(n), T());
    for (ptrdiff_t i = n - 1; i >= 0; --i) {
        T s = b[i];
        for (ptrdiff_t j = i + 1; j < n; ++j) s -= A(i, j) * x[j];
        x[i] = s / A(i, i);
    }
    return true;
}

// true relative residual ||f - A x||_2 / ||f||_2 in long double from CSR arrays
template <class V, class X>
long double true_relres(const Csr<V> &A, const std::vector<X> &f, const std::vector<X> &x) {
    long double rr = 0, ff = 0;
    for (ptrdiff_t i = 0; i < A.n; ++i) {
        std::complex<long double> s(std::real(f[i]), std::imag(f[i]));
        for (ptrdiff_t j = A.ptr[i]; j < A.ptr[i + 1]; ++j) {
            std::complex<long double> a(std::real(A.val[j]), std::imag(A.val[j]));
            std::complex<long double> xv(std::real(x[A.col[j]]), std::imag(x[A.col[j]]));
            s -= a * xv;
        }
        rr += std::norm(s);
        ff += std::norm(std::complex<long double>(std::real(f[i]), std::imag(f[i])));
    }
    return ff > 0 ? std::sqrt(rr / ff) : std::sqrt(rr);
}

} // namespace vf
