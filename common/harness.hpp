// Harness scaffolding shared by every property executable.
//
// A property TU defines   static std::vector<vf::Prop> props() { ... }
// (and optionally enumerators) and ends with VF_MAIN(props(), enums()).
//
// Modes
//   exe --list                                 JSON description of props/enums
//   exe --run  <prop> --out s.json --fail f    rapidcheck campaign (RC_PARAMS from env)
//   exe --enum <enum> --shard i/n --out .. --fail ..   exhaustive enumeration
//   exe --replay file.case                     one case, no rapidcheck; exit 0 pass / 1 fail
// With -DVF_FUZZ the same TU becomes a libFuzzer target for the prop named by
// env VF_FUZZ_PROP (bytes -> tape words, little endian).
#pragma once
#include <cstdio>
#include <cstdlib>
#include <cstring>
#include <cstdint>
#include <functional>
#include <fstream>
#include <iostream>
#include <map>
#include <set>
#include <sstream>
#include <stdexcept>
#include <string>
#include <unordered_set>
#include <vector>
#include <csignal>
#include <fcntl.h>
#include <sys/mman.h>
#include <unistd.h>
#ifdef _OPENMP
#include <omp.h>
#endif
#ifndef VF_FUZZ
#include <rapidcheck.h>
#endif
#include "tape.hpp"

namespace vf {

struct Fail : std::runtime_error {
    explicit Fail(const std::string &m) : std::runtime_error(m) {}
};

#define VF_STR2(x) #x
#define VF_STR(x) VF_STR2(x)
#define VF_REQUIRE(cond, msg) do { if (!(cond)) { std::ostringstream vf_os_; vf_os_ << msg << "  [" #cond " @" __FILE__ ":" VF_STR(__LINE__) "]"; throw ::vf::Fail(vf_os_.str()); } } while (0)

struct Ctx {
    std::vector<std::string> labels;
    bool nontrivial = false;
    std::string excluded;      // non-empty: case lies in a listed known-finding region (or outside the domain), not asserted
    std::ostringstream desc;   // human readable rendering of the decoded case
    int threads = 1;
    bool include_known = false; // VF_INCLUDE_KNOWN=1: do not exclude known-finding regions (used for witness replays)
    void label(const std::string &s) { labels.push_back(s); }
    // returns true when the caller must skip the assertion
    bool known(const std::string &id) {
        if (include_known) { label("known-included:" + id); return false; }
        excluded = id; return true;
    }
};

typedef std::function<void(Tape &, Ctx &)> PropFn;

struct Prop {
    std::string name;
    PropFn fn;
    int quick_cases;       // rapidcheck max_success per shard, quick tier
    int thorough_cases;    // ... thorough tier
    int max_size;          // rapidcheck max_size; tape length <= tape_scale*size
    int tape_scale;
    std::vector<int> threads; // OpenMP thread counts to run this prop under
    int quick_shards;
    int thorough_shards;
    Prop(std::string n, PropFn f, int qc, int tc, int ms = 100, int ts = 20,
         std::vector<int> th = {1}, int qs = 2, int tsd = 8)
        : name(std::move(n)), fn(std::move(f)), quick_cases(qc), thorough_cases(tc), max_size(ms), tape_scale(ts),
          threads(std::move(th)), quick_shards(qs), thorough_shards(tsd) {}
};

// An enumerator emits tapes for a prop; `tier` selects the scope.
typedef std::function<void(const std::vector<uint32_t> &)> Emit;
struct Enum {
    std::string name;
    std::string prop;
    std::function<void(const std::string &tier, const Emit &)> gen;
    std::string scope_quick, scope_thorough; // text for the evidence file
    int threads = 1;
};

// ---------------------------------------------------------------- json util
inline std::string jstr(const std::string &s) {
    std::string o = "\"";
    for (unsigned char c : s) {
        switch (c) {
        case '"': o += "\\\""; break;
        case '\\': o += "\\\\"; break;
        case '\n': o += "\\n"; break;
        case '\t': o += "\\t"; break;
        case '\r': o += "\\r"; break;
        default:
            if (c < 0x20) { char b[8]; snprintf(b, sizeof b, "\\u%04x", c); o += b; }
            else o += static_cast<char>(c);
        }
    }
    return o + "\"";
}

// ---------------------------------------------------------------- case files
// MPI harnesses (common/harness_mpi.hpp) set these; serial harnesses keep rank 0 of 1.
inline int &rank_ref() { static int r = 0; return r; }
inline int &size_ref() { static int s = 1; return s; }

struct CaseFile {
    std::string target, prop;
    int threads = 1;
    int ranks = 1;
    std::vector<uint32_t> tape;
    std::string note;
};

inline void write_case(const std::string &path, const CaseFile &c) {
    std::string tmp = path + ".tmp";
    {
        std::ofstream f(tmp.c_str());
        f << "verif-case 1\n";
        f << "target " << c.target << "\n";
        f << "prop " << c.prop << "\n";
        f << "threads " << c.threads << "\n";
        if (c.ranks > 1) f << "ranks " << c.ranks << "\n";
        f << "tape " << c.tape.size() << "\n";
        for (size_t i = 0; i < c.tape.size(); ++i) f << c.tape[i] << ((i + 1) % 16 == 0 ? "\n" : " ");
        f << "\nend\n";
        std::istringstream is(c.note);
        std::string line;
        while (std::getline(is, line)) f << "# " << line << "\n";
    }
    std::rename(tmp.c_str(), path.c_str());
}

inline bool read_case(const std::string &path, CaseFile &c) {
    std::ifstream f(path.c_str());
    if (!f) return false;
    std::string w; int ver;
    if (!(f >> w >> ver) || w != "verif-case") return false;
    size_t n = 0;
    while (f >> w) {
        if (w == "target") f >> c.target;
        else if (w == "prop") f >> c.prop;
        else if (w == "threads") f >> c.threads;
        else if (w == "ranks") f >> c.ranks;
        else if (w == "tape") {
            f >> n; c.tape.resize(n);
            for (size_t i = 0; i < n; ++i) { unsigned long long x; f >> x; c.tape[i] = static_cast<uint32_t>(x); }
        } else if (w == "end") break;
    }
    return true;
}

// ---------------------------------------------------------------- pending case (survives aborts)
// A MAP_SHARED file holds the tape of the case being executed; if the process
// is killed by a sanitizer or a signal the driver recovers the input from it.
struct Pending {
    static const size_t CAP = 1 << 20; // words
    uint32_t *p = nullptr;
    void open(const std::string &path) {
        int fd = ::open(path.c_str(), O_RDWR | O_CREAT | O_TRUNC, 0644);
        if (fd < 0) return;
        if (ftruncate(fd, (CAP + 2) * sizeof(uint32_t)) != 0) { ::close(fd); return; }
        void *m = mmap(nullptr, (CAP + 2) * sizeof(uint32_t), PROT_READ | PROT_WRITE, MAP_SHARED, fd, 0);
        ::close(fd);
        if (m == MAP_FAILED) return;
        p = static_cast<uint32_t *>(m);
        p[0] = 0; p[1] = 0;
    }
    void set(const std::vector<uint32_t> &t) {
        if (!p) return;
        size_t n = t.size() < CAP ? t.size() : CAP;
        p[0] = 0;                       // invalid while copying
        if (n) memcpy(p + 2, t.data(), n * sizeof(uint32_t));
        p[1] = static_cast<uint32_t>(n);
        p[0] = 1;                       // valid, running
    }
    // the case finished: keep its words (state 2) - a heap corruption caused by it may only be noticed by the allocator later
    void clear() { if (p) p[0] = 2; }
};

// ---------------------------------------------------------------- statistics
struct Stats {
    std::string target, prop, mode;
    int threads = 1;
    long evaluations = 0, nontrivial = 0, excluded = 0, overruns = 0;
    std::map<std::string, long> labels;
    std::map<std::string, long> excluded_by;
    std::unordered_set<uint64_t> distinct;   // hashes of non-trivial cases
    std::vector<std::string> samples;
    bool failed = false;
    std::string fail_msg;
    bool exhaustive = false;
    std::string scope;

    void add(const Tape &t, const Ctx &c) {
        ++evaluations;
        if (t.overrun) ++overruns;
        for (auto &l : c.labels) ++labels[l];
        if (!c.excluded.empty()) { ++excluded; ++excluded_by[c.excluded]; return; }
        if (c.nontrivial) {
            ++nontrivial;
            bool fresh = distinct.insert(t.h).second;
            if (fresh && samples.size() < 3) samples.push_back(c.desc.str());
        }
        // two more samples spread out later in the run
        if (c.nontrivial && (evaluations == 200 || evaluations == 1000) && samples.size() < 5) samples.push_back(c.desc.str());
    }

    void write(const std::string &path) const {
        if (path.empty()) return;
        std::ofstream f(path.c_str());
        f << "{\n \"target\": " << jstr(target) << ",\n \"prop\": " << jstr(prop) << ",\n \"mode\": " << jstr(mode)
          << ",\n \"threads\": " << threads << ",\n \"evaluations\": " << evaluations << ",\n \"nontrivial\": " << nontrivial
          << ",\n \"distinct_nontrivial\": " << distinct.size() << ",\n \"excluded\": " << excluded
          << ",\n \"tape_overruns\": " << overruns << ",\n \"exhaustive\": " << (exhaustive ? "true" : "false")
          << ",\n \"scope\": " << jstr(scope) << ",\n \"failed\": " << (failed ? "true" : "false")
          << ",\n \"fail_msg\": " << jstr(fail_msg) << ",\n \"labels\": {";
        bool first = true;
        for (auto &kv : labels) { f << (first ? "" : ", ") << jstr(kv.first) << ": " << kv.second; first = false; }
        f << "},\n \"excluded_by\": {";
        first = true;
        for (auto &kv : excluded_by) { f << (first ? "" : ", ") << jstr(kv.first) << ": " << kv.second; first = false; }
        f << "},\n \"samples\": [";
        first = true;
        for (auto &s : samples) { f << (first ? "" : ", ") << jstr(s); first = false; }
        f << "]\n}\n";
        f.close();
        // hashes of the distinct non-trivial cases, so the driver can union over shards
        std::ofstream hf((path + ".hashes").c_str(), std::ios::binary);
        size_t k = 0;
        for (uint64_t x : distinct) { if (++k > 2000000) break; hf.write(reinterpret_cast<const char *>(&x), 8); }
    }
};

// ---------------------------------------------------------------- running one case
struct Outcome { bool ok = true; std::string msg; };

inline Outcome run_case(const Prop &p, Tape &t, Ctx &c) {
    Outcome o;
    try {
        p.fn(t, c);
    } catch (const Fail &f) {
        o.ok = false; o.msg = f.what();
    } catch (const std::exception &e) {
        o.ok = false; o.msg = std::string("unexpected exception: ") + e.what();
    }
    if (!c.excluded.empty()) { o.ok = true; o.msg.clear(); }
    return o;
}

inline bool env_flag(const char *n) { const char *e = getenv(n); return e && *e && strcmp(e, "0") != 0; }

inline void set_threads(int n) {
#ifdef _OPENMP
    omp_set_dynamic(0);
    omp_set_num_threads(n);
#else
    (void)n;
#endif
}

#ifndef VF_TARGET
#define VF_TARGET "unknown"
#endif

struct Runner {
    std::vector<Prop> props;
    std::vector<Enum> enums;
    Stats st;
    Pending pend;
    std::string fail_path, out_path;
    bool include_known = false;

    const Prop *find(const std::string &n) const {
        for (auto &p : props) if (p.name == n) return &p;
        return nullptr;
    }

    // returns true when the case passed
    bool eval(const Prop &p, const std::vector<uint32_t> &words, int threads, bool record) {
        pend.set(words);
        Tape t(words);
        Ctx c; c.threads = threads; c.include_known = include_known;
        Outcome o = run_case(p, t, c);
        pend.clear();
        if (record) st.add(t, c);
        if (!o.ok) {
            st.failed = true; st.fail_msg = o.msg;
            if (!fail_path.empty()) {
                CaseFile cf; cf.target = VF_TARGET; cf.prop = p.name; cf.threads = threads; cf.tape = words; cf.ranks = size_ref();
                cf.note = "FAIL: " + o.msg + "\n" + c.desc.str();
                write_case(fail_path, cf);
            }
        }
        return o.ok;
    }

    int list() const {
        std::cout << "{\"target\": " << jstr(VF_TARGET) << ", \"props\": [";
        for (size_t i = 0; i < props.size(); ++i) {
            const Prop &p = props[i];
            std::cout << (i ? ", " : "") << "{\"name\": " << jstr(p.name) << ", \"quick_cases\": " << p.quick_cases
                      << ", \"thorough_cases\": " << p.thorough_cases << ", \"max_size\": " << p.max_size
                      << ", \"quick_shards\": " << p.quick_shards << ", \"thorough_shards\": " << p.thorough_shards
                      << ", \"threads\": [";
            for (size_t k = 0; k < p.threads.size(); ++k) std::cout << (k ? "," : "") << p.threads[k];
            std::cout << "]}";
        }
        std::cout << "], \"enums\": [";
        for (size_t i = 0; i < enums.size(); ++i)
            std::cout << (i ? ", " : "") << "{\"name\": " << jstr(enums[i].name) << ", \"prop\": " << jstr(enums[i].prop)
                      << ", \"threads\": " << enums[i].threads << "}";
        std::cout << "]}" << std::endl;
        return 0;
    }

    int replay(const std::string &path) {
        CaseFile cf;
        if (!read_case(path, cf)) { std::cerr << "cannot read case file " << path << std::endl; return 2; }
        const Prop *p = find(cf.prop);
        if (!p) { std::cerr << "no such prop " << cf.prop << std::endl; return 2; }
        set_threads(cf.threads);
        Tape t(cf.tape);
        Ctx c; c.threads = cf.threads; c.include_known = include_known;
        // if the case dies with a signal, still say what it was
        static const Ctx *dying = nullptr; dying = &c;
        auto handler = [](int sig) {
            if (dying) { std::string d = "case (killed by signal " + std::to_string(sig) + "): " + dying->desc.str() + "\nFAIL: terminated by signal " + std::to_string(sig) + "\n"; (void)!write(1, d.data(), d.size()); }
            _exit(128 + sig);
        };
        signal(SIGSEGV, handler); signal(SIGBUS, handler); signal(SIGFPE, handler); signal(SIGILL, handler);
        Outcome o = run_case(*p, t, c);
        std::cout << "case: " << c.desc.str() << std::endl;
        if (!c.excluded.empty()) std::cout << "EXCLUDED: " << c.excluded << std::endl;
        if (o.ok) { std::cout << "PASS" << std::endl; return 0; }
        std::cout << "FAIL: " << o.msg << std::endl;
        return 1;
    }

#ifndef VF_FUZZ
    int run(const std::string &name, int threads) {
        const Prop *p = find(name);
        if (!p) { std::cerr << "no such prop " << name << std::endl; return 2; }
        set_threads(threads);
        st.target = VF_TARGET; st.prop = name; st.mode = "rapidcheck"; st.threads = threads;
        bool seen_fail = false;
        auto tapegen = rc::gen::scale(static_cast<double>(p->tape_scale),
                                      rc::gen::container<std::vector<uint32_t>>(rc::gen::resize(100, rc::gen::arbitrary<uint32_t>())));
        // shrink budget (evaluation count, deterministic): once it is used up every further shrink candidate is
        // accepted as "passing" without being executed, so rapidcheck stops at the smallest failing case found so far
        // (which is what the fail file holds)
        long shrink_budget = 4000, shrink_evals = 0;
        if (const char *e = getenv("VF_SHRINK_BUDGET")) shrink_budget = atol(e);
        bool ok = rc::check(name, [&]() {
            std::vector<uint32_t> words = *tapegen;
            if (seen_fail && ++shrink_evals > shrink_budget) return;
            bool pass = eval(*p, words, threads, !seen_fail);
            if (!pass) { seen_fail = true; RC_FAIL(st.fail_msg); }
        });
        st.write(out_path);
        return ok ? 0 : 1;
    }
#endif

    int enumerate(const std::string &name, const std::string &tier, long shard, long nshards) {
        const Enum *e = nullptr;
        for (auto &x : enums) if (x.name == name) e = &x;
        if (!e) { std::cerr << "no such enum " << name << std::endl; return 2; }
        const Prop *p = find(e->prop);
        if (!p) { std::cerr << "enum refers to unknown prop " << e->prop << std::endl; return 2; }
        set_threads(e->threads);
        st.target = VF_TARGET; st.prop = e->prop + "/" + name; st.mode = "enumeration"; st.threads = e->threads;
        st.exhaustive = true; st.scope = (tier == "thorough") ? e->scope_thorough : e->scope_quick;
        long idx = 0;
        bool failed = false;
        e->gen(tier, [&](const std::vector<uint32_t> &words) {
            if (failed) return;
            if ((idx++ % nshards) != shard) return;
            if (!eval(*p, words, e->threads, true)) failed = true; // first failure is kept; enumeration order is small-first
        });
        st.write(out_path);
        return failed ? 1 : 0;
    }

    int main(int argc, char **argv) {
        include_known = env_flag("VF_INCLUDE_KNOWN");
        std::string mode, arg, tier = "quick";
        int threads = 1; long shard = 0, nshards = 1;
        for (int i = 1; i < argc; ++i) {
            std::string a = argv[i];
            auto next = [&]() -> std::string { return (i + 1 < argc) ? argv[++i] : ""; };
            if (a == "--list") mode = "list";
            else if (a == "--run") { mode = "run"; arg = next(); }
            else if (a == "--enum") { mode = "enum"; arg = next(); }
            else if (a == "--replay") { mode = "replay"; arg = next(); }
            else if (a == "--out") out_path = next();
            else if (a == "--fail") fail_path = next();
            else if (a == "--threads") threads = atoi(next().c_str());
            else if (a == "--tier") tier = next();
            else if (a == "--shard") { std::string s = next(); sscanf(s.c_str(), "%ld/%ld", &shard, &nshards); }
        }
        if (rank_ref() != 0) { out_path.clear(); fail_path.clear(); } // only rank 0 reports
        if (mode == "list") return list();
        if (mode == "replay") return replay(arg);
        if (!fail_path.empty()) pend.open(fail_path + ".pending");
#ifndef VF_FUZZ
        if (mode == "run") return run(arg, threads);
#endif
        if (mode == "enum") return enumerate(arg, tier, shard, nshards);
        std::cerr << "usage: --list | --run prop | --enum name | --replay file" << std::endl;
        return 2;
    }
};

} // namespace vf

#ifdef VF_FUZZ
// libFuzzer entry: bytes -> words.  The prop is chosen by env VF_FUZZ_PROP at start-up.
#define VF_MAIN(PROPS, ENUMS)                                                                            \
    static vf::Runner &vf_runner() {                                                                     \
        static vf::Runner r;                                                                             \
        static bool init = false;                                                                        \
        if (!init) {                                                                                     \
            init = true; r.props = PROPS; r.enums = ENUMS;                                               \
            r.include_known = vf::env_flag("VF_INCLUDE_KNOWN");                                          \
            const char *f = getenv("VF_FAIL"); if (f) { r.fail_path = f; }                               \
            const char *o = getenv("VF_OUT"); if (o) { r.out_path = o; }                                 \
            const char *t = getenv("VF_THREADS"); vf::set_threads(t ? atoi(t) : 1);                      \
            r.st.target = VF_TARGET; r.st.mode = "libfuzzer";                                            \
            const char *pn = getenv("VF_FUZZ_PROP"); r.st.prop = pn ? pn : r.props[0].name;              \
            atexit([]() { vf_runner().st.write(vf_runner().out_path); });                                \
        }                                                                                                \
        return r;                                                                                        \
    }                                                                                                    \
    extern "C" int LLVMFuzzerTestOneInput(const uint8_t *data, size_t size) {                            \
        vf::Runner &r = vf_runner();                                                                     \
        const vf::Prop *p = r.find(r.st.prop);                                                           \
        if (!p) { fprintf(stderr, "no such prop\n"); abort(); }                                          \
        std::vector<uint32_t> words(size / 4);                                                           \
        if (!words.empty()) memcpy(words.data(), data, words.size() * 4);                                \
        const char *t = getenv("VF_THREADS");                                                            \
        if (!r.eval(*p, words, t ? atoi(t) : 1, true)) {                                                 \
            fprintf(stderr, "VF-FAIL: %s\n", r.st.fail_msg.c_str());                                     \
            r.st.write(r.out_path);                                                                      \
            __builtin_trap();                                                                            \
        }                                                                                                \
        return 0;                                                                                        \
    }
#else
#define VF_MAIN(PROPS, ENUMS)                                                                            \
    int main(int argc, char **argv) {                                                                    \
        vf::Runner r; r.props = PROPS; r.enums = ENUMS;                                                  \
        return r.main(argc, argv);                                                                       \
    }
#endif
