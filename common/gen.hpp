// Constructive generators: tape -> sparsity patterns, value families, vectors.
// Nothing here filters; every draw yields a valid member of the family.
#pragma once
#include <algorithm>
#include <cassert>
#include <cmath>
#include <complex>
#include <functional>
#include <cstddef>
#include <map>
#include <numeric>
#include <set>
#include <sstream>
#include <string>
#include <vector>
#include "tape.hpp"

namespace vf {

// Plain CSR container owned by the harness (amgcl never sees this type; it is
// handed over as a tuple of vectors or through amgcl::backend::crs).
template <class V = double>
struct Csr {
    ptrdiff_t n = 0, m = 0;
    std::vector<ptrdiff_t> ptr, col;
    std::vector<V> val;
    ptrdiff_t nnz() const { return static_cast<ptrdiff_t>(col.size()); }
};

// ------------------------------------------------------------------ graphs
struct Graph {
    int n = 0;
    std::vector<std::pair<int, int>> edges; // i<j, unique
    std::string family;
    // grid extents when family is a grid (for anisotropy): axis id per edge, else -1
    std::vector<int> axis;
};

inline void add_edge(std::set<std::pair<int, int>> &E, int i, int j) {
    if (i == j) return;
    if (i > j) std::swap(i, j);
    E.insert(std::make_pair(i, j));
}

// families: 0 path, 1 grid2 (5pt), 2 grid2 9pt, 3 grid3 (7pt), 4 er, 5 tree+chords, 6 band, 7 star, 8 disconnected union, 9 empty (diagonal)
inline Graph gen_graph(Tape &t, int nmax, int fam_lo = 0, int fam_hi = 9) {
    Graph g;
    int fam = static_cast<int>(t.u(fam_lo, fam_hi));
    std::set<std::pair<int, int>> E;
    std::map<std::pair<int, int>, int> ax;
    auto grid = [&](int nx, int ny, int nz, bool diag) {
        g.n = nx * ny * nz;
        auto id = [&](int i, int j, int k) { return (k * ny + j) * nx + i; };
        for (int k = 0; k < nz; ++k) for (int j = 0; j < ny; ++j) for (int i = 0; i < nx; ++i) {
            if (i + 1 < nx) { add_edge(E, id(i, j, k), id(i + 1, j, k)); ax[{id(i, j, k), id(i + 1, j, k)}] = 0; }
            if (j + 1 < ny) { add_edge(E, id(i, j, k), id(i, j + 1, k)); ax[{id(i, j, k), id(i, j + 1, k)}] = 1; }
            if (k + 1 < nz) { add_edge(E, id(i, j, k), id(i, j, k + 1)); ax[{id(i, j, k), id(i, j, k + 1)}] = 2; }
            if (diag && i + 1 < nx && j + 1 < ny) { add_edge(E, id(i, j, k), id(i + 1, j + 1, k)); add_edge(E, id(i + 1, j, k), id(i, j + 1, k)); }
        }
    };
    switch (fam) {
    case 0: { g.family = "path"; g.n = static_cast<int>(t.u(1, nmax)); for (int i = 0; i + 1 < g.n; ++i) add_edge(E, i, i + 1); break; }
    case 1: case 2: {
        g.family = fam == 1 ? "grid2" : "grid2x9";
        int s = std::max(1, static_cast<int>(std::sqrt(static_cast<double>(nmax))));
        int nx = static_cast<int>(t.u(1, s)), ny = static_cast<int>(t.u(1, std::max(1, nmax / nx > 2 * s ? 2 * s : nmax / nx)));
        grid(nx, ny, 1, fam == 2); break; }
    case 3: {
        g.family = "grid3";
        int s = std::max(1, static_cast<int>(std::cbrt(static_cast<double>(nmax))));
        int nx = static_cast<int>(t.u(1, s)), ny = static_cast<int>(t.u(1, s)), nz = static_cast<int>(t.u(1, s));
        grid(nx, ny, nz, false); break; }
    case 4: {
        g.family = "er"; g.n = static_cast<int>(t.u(1, nmax));
        int deg = static_cast<int>(t.u(1, 6));
        long ne = static_cast<long>(g.n) * deg / 2;
        for (long e = 0; e < ne; ++e) add_edge(E, static_cast<int>(t.pick(g.n)), static_cast<int>(t.pick(g.n)));
        break; }
    case 5: {
        g.family = "tree"; g.n = static_cast<int>(t.u(1, nmax));
        for (int i = 1; i < g.n; ++i) add_edge(E, i, static_cast<int>(t.pick(i)));
        int chords = static_cast<int>(t.u(0, std::max(0, g.n / 4)));
        for (int c = 0; c < chords; ++c) add_edge(E, static_cast<int>(t.pick(g.n)), static_cast<int>(t.pick(g.n)));
        break; }
    case 6: {
        g.family = "band"; g.n = static_cast<int>(t.u(1, nmax));
        int w = static_cast<int>(t.u(1, 4));
        for (int i = 0; i < g.n; ++i) for (int d = 1; d <= w && i + d < g.n; ++d) add_edge(E, i, i + d);
        break; }
    case 7: {
        g.family = "star"; g.n = static_cast<int>(t.u(1, nmax));
        int hub = static_cast<int>(t.pick(g.n));
        for (int i = 0; i < g.n; ++i) add_edge(E, hub, i);
        break; }
    case 8: {
        g.family = "union"; g.n = static_cast<int>(t.u(1, nmax));
        // a few disjoint paths/cliques of random sizes
        int i = 0;
        while (i < g.n) {
            int sz = static_cast<int>(t.u(1, std::max(1, std::min(g.n - i, 8))));
            bool clique = t.b();
            for (int a = 0; a < sz; ++a) {
                if (clique) { for (int b2 = a + 1; b2 < sz; ++b2) add_edge(E, i + a, i + b2); }
                else if (a + 1 < sz) add_edge(E, i + a, i + a + 1);
            }
            i += sz;
        }
        break; }
    default: { g.family = "diag"; g.n = static_cast<int>(t.u(1, nmax)); break; }
    }
    g.edges.assign(E.begin(), E.end());
    g.axis.resize(g.edges.size(), -1);
    for (size_t e = 0; e < g.edges.size(); ++e) { auto it = ax.find(g.edges[e]); if (it != ax.end()) g.axis[e] = it->second; }
    return g;
}

// connected components of a graph
inline std::vector<int> components(const Graph &g, int &ncomp) {
    std::vector<int> p(g.n);
    std::iota(p.begin(), p.end(), 0);
    std::function<int(int)> f = [&](int x) { while (p[x] != x) { p[x] = p[p[x]]; x = p[x]; } return x; };
    for (auto &e : g.edges) { int a = f(e.first), b = f(e.second); if (a != b) p[a] = b; }
    std::vector<int> id(g.n, -1), comp(g.n);
    ncomp = 0;
    for (int i = 0; i < g.n; ++i) { int r = f(i); if (id[r] < 0) id[r] = ncomp++; comp[i] = id[r]; }
    return comp;
}

// Assemble CSR from triplets (rows sorted by column, duplicates summed)
template <class V>
Csr<V> from_triplets(ptrdiff_t n, ptrdiff_t m, const std::vector<std::map<ptrdiff_t, V>> &rows) {
    Csr<V> A; A.n = n; A.m = m; A.ptr.assign(n + 1, 0);
    for (ptrdiff_t i = 0; i < n; ++i) {
        for (auto &kv : rows[i]) { A.col.push_back(kv.first); A.val.push_back(kv.second); }
        A.ptr[i + 1] = static_cast<ptrdiff_t>(A.col.size());
    }
    return A;
}

// SPD, irreducibly diagonally dominant M-matrix: weighted graph Laplacian + non-negative
// shifts with at least one positive shift per connected component.
// contrast: weights log-uniform in [1, contrast]; aniso: weights along grid axis 0 multiplied by eps in [aniso_lo,1]
struct MmatInfo { double contrast = 1, aniso = 1; int shifts = 0; };
inline Csr<double> gen_mmat(Tape &t, const Graph &g, double max_contrast, bool allow_aniso, MmatInfo *info = nullptr, bool integer_weights = false) {
    double contrast = integer_weights ? 1.0 : t.logu(1.0, max_contrast);
    double aniso = 1.0;
    if (allow_aniso && t.chance(1, 4)) aniso = t.logu(1e-3, 1.0);
    std::vector<std::map<ptrdiff_t, double>> rows(g.n);
    for (int i = 0; i < g.n; ++i) rows[i][i] = 0.0;
    for (size_t e = 0; e < g.edges.size(); ++e) {
        double w = integer_weights ? static_cast<double>(t.u(1, 4)) : (contrast > 1.0 ? t.logu(1.0, contrast) : 1.0);
        if (g.axis[e] == 0) w *= aniso;
        int i = g.edges[e].first, j = g.edges[e].second;
        rows[i][j] -= w; rows[j][i] -= w; rows[i][i] += w; rows[j][j] += w;
    }
    int nc; std::vector<int> comp = components(g, nc);
    std::vector<char> has(nc, 0);
    int shifts = 0;
    // shift mode: 0 = one node per component, 1 = random subset (+guarantee), 2 = all nodes
    int mode = static_cast<int>(t.u(0, 2));
    for (int i = 0; i < g.n; ++i) {
        bool s = (mode == 2) || (mode == 1 && t.chance(1, 4));
        if (s) { rows[i][i] += integer_weights ? 1.0 : t.logu(0.05, 2.0); has[comp[i]] = 1; ++shifts; }
    }
    for (int i = 0; i < g.n; ++i) if (!has[comp[i]]) { rows[i][i] += 1.0; has[comp[i]] = 1; ++shifts; }
    if (info) { info->contrast = contrast; info->aniso = aniso; info->shifts = shifts; }
    return from_triplets<double>(g.n, g.n, rows);
}

// Random sparse rectangular matrix with exactly representable small-integer values.
// sorted: rows ordered by column; otherwise each row is shuffled by tape choices. No duplicate columns.
inline Csr<double> gen_sparse_int(Tape &t, ptrdiff_t n, ptrdiff_t m, int maxabs, bool sorted, bool allow_zero_values = false) {
    Csr<double> A; A.n = n; A.m = m; A.ptr.assign(n + 1, 0);
    int dens = static_cast<int>(t.u(0, 3)); // expected entries per row: 0.5, 1.5, 3, m/2
    for (ptrdiff_t i = 0; i < n; ++i) {
        std::vector<ptrdiff_t> cols;
        if (m > 0) {
            ptrdiff_t k;
            switch (dens) {
            case 0: k = t.u(0, 1); break;
            case 1: k = t.u(0, 3); break;
            case 2: k = t.u(0, 6); break;
            default: k = t.u(0, std::min<ptrdiff_t>(m, 48)); break;
            }
            k = std::min<ptrdiff_t>(k, m);
            std::set<ptrdiff_t> S;
            for (ptrdiff_t a = 0; a < k; ++a) S.insert(static_cast<ptrdiff_t>(t.pick(m)));
            cols.assign(S.begin(), S.end());
            if (!sorted) for (size_t a = cols.size(); a > 1; --a) std::swap(cols[a - 1], cols[t.pick(a)]);
        }
        for (ptrdiff_t c : cols) {
            double v = static_cast<double>(t.u(1, maxabs));
            if (t.b()) v = -v;
            if (allow_zero_values && t.chance(1, 8)) v = 0;
            A.col.push_back(c); A.val.push_back(v);
        }
        A.ptr[i + 1] = static_cast<ptrdiff_t>(A.col.size());
    }
    return A;
}

// shuffle entries inside every row (tape driven); returns whether any row actually changed order
template <class V>
bool shuffle_rows(Tape &t, Csr<V> &A) {
    bool changed = false;
    for (ptrdiff_t i = 0; i < A.n; ++i) {
        ptrdiff_t b = A.ptr[i], e = A.ptr[i + 1];
        for (ptrdiff_t a = e - b; a > 1; --a) {
            ptrdiff_t k = static_cast<ptrdiff_t>(t.pick(a));
            if (k != a - 1) { std::swap(A.col[b + a - 1], A.col[b + k]); std::swap(A.val[b + a - 1], A.val[b + k]); changed = true; }
        }
    }
    return changed;
}

template <class V>
Csr<V> sorted_copy(const Csr<V> &A) {
    Csr<V> B = A;
    for (ptrdiff_t i = 0; i < A.n; ++i) {
        std::vector<std::pair<ptrdiff_t, V>> r;
        for (ptrdiff_t j = A.ptr[i]; j < A.ptr[i + 1]; ++j) r.push_back(std::make_pair(A.col[j], A.val[j]));
        std::stable_sort(r.begin(), r.end(), [](const std::pair<ptrdiff_t, V> &a, const std::pair<ptrdiff_t, V> &b) { return a.first < b.first; });
        for (size_t k = 0; k < r.size(); ++k) { B.col[A.ptr[i] + k] = r[k].first; B.val[A.ptr[i] + k] = r[k].second; }
    }
    return B;
}

// delete a_ji (keeping a_ij) with probability q/8 per off-diagonal pair: structural non-symmetry
template <class V>
Csr<V> make_structurally_nonsym(Tape &t, const Csr<V> &A, int q8) {
    Csr<V> B; B.n = A.n; B.m = A.m; B.ptr.assign(A.n + 1, 0);
    for (ptrdiff_t i = 0; i < A.n; ++i) {
        for (ptrdiff_t j = A.ptr[i]; j < A.ptr[i + 1]; ++j) {
            bool drop = (A.col[j] != i) && t.chance(q8, 8);
            if (!drop) { B.col.push_back(A.col[j]); B.val.push_back(A.val[j]); }
        }
        B.ptr[i + 1] = static_cast<ptrdiff_t>(B.col.size());
    }
    return B;
}

// vectors
inline std::vector<double> gen_vec(Tape &t, size_t n, int kind = -1) {
    std::vector<double> x(n);
    if (kind < 0) kind = static_cast<int>(t.u(0, 3));
    for (size_t i = 0; i < n; ++i) {
        switch (kind) {
        case 0: x[i] = 1.0; break;
        case 1: x[i] = static_cast<double>(t.u(-3, 3)); break;
        case 2: x[i] = t.uni(-1.0, 1.0); break;
        default: x[i] = t.slogu(1e-3, 1e3); break;
        }
    }
    return x;
}

template <class V>
std::string describe(const Csr<V> &A, const std::string &name = "A") {
    std::ostringstream os;
    os << name << "[" << A.n << "x" << A.m << ",nnz=" << A.nnz() << "]";
    return os.str();
}

// full dump for small matrices (goes into the case description / replay note)
template <class V>
std::string dump_small(const Csr<V> &A, ptrdiff_t maxn = 12) {
    std::ostringstream os;
    if (A.n > maxn) return "";
    os << "{";
    for (ptrdiff_t i = 0; i < A.n; ++i) {
        os << (i ? "; " : "");
        for (ptrdiff_t j = A.ptr[i]; j < A.ptr[i + 1]; ++j) os << (j > A.ptr[i] ? " " : "") << A.col[j] << ":" << A.val[j];
    }
    os << "}";
    return os.str();
}

} // namespace vf
