// Friend accessor used when the library is compiled with -DAMGCL_VERIF.
// Include AFTER the amgcl headers whose internals are inspected.
#pragma once
#include <cstddef>
#include <memory>
#include <vector>

namespace amgcl_verif {

struct access {
    // ---- gauss_seidel
    template <class GS> static auto gs_forward(const GS &g) -> decltype(g.forward) { return g.forward; }
    template <class GS> static auto gs_backward(const GS &g) -> decltype(g.backward) { return g.backward; }
    template <class GS, class M, class V1, class V2>
    static void gs_serial_sweep(const M &A, const V1 &rhs, V2 &x, bool forward) { GS::serial_sweep(A, rhs, x, forward); }

    // ---- ilu_solve
    template <class S> static auto ilu_lower(const S &s) -> decltype(s.lower) { return s.lower; }
    template <class S> static auto ilu_upper(const S &s) -> decltype(s.upper) { return s.upper; }
    template <class S> static auto ilu_L(const S &s) -> decltype(s.L) { return s.L; }
    template <class S> static auto ilu_U(const S &s) -> decltype(s.U) { return s.U; }
    template <class S> static auto ilu_D(const S &s) -> decltype(s.D) { return s.D; }

    // ---- ILU relaxations: the triangular solver they own
    template <class R> static auto relax_ilu(const R &r) -> decltype(r.ilu) { return r.ilu; }
    template <class R> static auto relax_base(const R &r) -> decltype(r.base) { return r.base; }

    // ---- amg hierarchy
    template <class AMG> static size_t nlevels(const AMG &a) { return a.levels.size(); }
    template <class AMG> static auto levels(const AMG &a) -> decltype((a.levels)) { return a.levels; }
};

} // namespace amgcl_verif
