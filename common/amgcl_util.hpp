// Glue between harness containers (vf::Csr) and amgcl's builtin CRS.
#pragma once
#include <memory>
#include <sstream>
#include <amgcl/backend/builtin.hpp>
#include <amgcl/value_type/interface.hpp>
#include "gen.hpp"
#include "harness.hpp"

namespace vf {

template <class V, class C = ptrdiff_t, class P = C, class W>
std::shared_ptr<amgcl::backend::crs<V, C, P>> to_crs(const Csr<W> &A) {
    std::vector<P> ptr(A.ptr.begin(), A.ptr.end());
    std::vector<C> col(A.col.begin(), A.col.end());
    std::vector<V> val(A.val.size());
    for (size_t i = 0; i < val.size(); ++i) val[i] = static_cast<V>(A.val[i]);
    auto M = std::make_shared<amgcl::backend::crs<V, C, P>>(static_cast<size_t>(A.n), static_cast<size_t>(A.m), ptr, col, val);
    return M;
}

template <class V, class C, class P>
Csr<V> from_crs(const amgcl::backend::crs<V, C, P> &A) {
    Csr<V> B; B.n = static_cast<ptrdiff_t>(A.nrows); B.m = static_cast<ptrdiff_t>(A.ncols);
    B.ptr.assign(A.ptr, A.ptr + A.nrows + 1);
    ptrdiff_t nnz = A.nrows ? static_cast<ptrdiff_t>(A.ptr[A.nrows]) : 0;
    B.col.assign(A.col, A.col + nnz);
    B.val.assign(A.val, A.val + nnz);
    return B;
}

// CRS well-formedness predicate: ptr[0]=0, monotone ptr, nnz consistent, columns in range.
// Throws vf::Fail with `what` as context.
template <class V, class C, class P>
void require_wellformed(const amgcl::backend::crs<V, C, P> &A, const std::string &what, bool need_sorted = false, bool need_unique = false) {
    VF_REQUIRE(A.ptr != nullptr, what << ": null ptr array");
    VF_REQUIRE(A.ptr[0] == 0, what << ": ptr[0]=" << A.ptr[0]);
    for (size_t i = 0; i < A.nrows; ++i) VF_REQUIRE(A.ptr[i] <= A.ptr[i + 1], what << ": ptr not monotone at row " << i);
    VF_REQUIRE(static_cast<size_t>(A.ptr[A.nrows]) == A.nnz, what << ": nnz=" << A.nnz << " but ptr[n]=" << A.ptr[A.nrows]);
    for (size_t i = 0; i < A.nrows; ++i) {
        for (P j = A.ptr[i]; j < A.ptr[i + 1]; ++j) {
            VF_REQUIRE(A.col[j] >= 0 && static_cast<size_t>(A.col[j]) < A.ncols, what << ": column " << A.col[j] << " out of range in row " << i);
            if (j > A.ptr[i]) {
                if (need_sorted) VF_REQUIRE(A.col[j - 1] <= A.col[j], what << ": row " << i << " not sorted");
            }
        }
        if (need_unique) {
            std::set<ptrdiff_t> S;
            for (P j = A.ptr[i]; j < A.ptr[i + 1]; ++j) VF_REQUIRE(S.insert(A.col[j]).second, what << ": duplicate column " << A.col[j] << " in row " << i);
        }
    }
}

} // namespace vf
