// Tape: the single source of generated choices for every harness.
//
// A case is a finite sequence of uint32 words.  rapidcheck generates (and
// shrinks) the sequence, libFuzzer mutates its byte image, enumerators write
// it digit by digit, and a replay file stores it verbatim.  Decoders map the
// word 0 to the simplest valid choice and reading past the end yields 0, so
// that a shorter / smaller tape is always a simpler case.
#pragma once
#include <cstdint>
#include <cmath>
#include <string>
#include <vector>

namespace vf {

struct Tape {
    std::vector<uint32_t> v;
    size_t pos = 0;
    size_t overrun = 0;
    uint64_t h = 1469598103934665603ULL; // FNV-1a over the decoded choices

    Tape() {}
    explicit Tape(std::vector<uint32_t> w) : v(std::move(w)) {}

    void mix(uint64_t x) {
        for (int i = 0; i < 8; ++i) { h ^= (x >> (8 * i)) & 0xff; h *= 1099511628211ULL; }
    }

    uint32_t raw() {
        uint32_t x = 0;
        if (pos < v.size()) x = v[pos]; else ++overrun;
        ++pos;
        return x;
    }

    // integer in [lo, hi]; word 0 -> lo
    int64_t u(int64_t lo, int64_t hi) {
        uint64_t range = static_cast<uint64_t>(hi - lo) + 1;
        uint64_t x = raw();
        int64_t r = lo + static_cast<int64_t>(range ? x % range : x);
        mix(static_cast<uint64_t>(r));
        return r;
    }
    bool b() { return u(0, 1) != 0; }
    // true with probability num/den; word 0 -> false
    bool chance(unsigned num, unsigned den) { return u(0, den - 1) >= static_cast<int64_t>(den - num); }
    size_t pick(size_t n) { return static_cast<size_t>(u(0, static_cast<int64_t>(n) - 1)); }

    // real in [0,1), 32 bits of resolution; word 0 -> 0
    double r01() {
        uint32_t x = raw();
        mix(x);
        return x / 4294967296.0;
    }
    double uni(double lo, double hi) { return lo + (hi - lo) * r01(); }
    // log-uniform in [lo, hi], lo > 0; word 0 -> lo
    double logu(double lo, double hi) { return lo * std::exp(std::log(hi / lo) * r01()); }
    // signed value with magnitude log-uniform in [lo,hi]
    double slogu(double lo, double hi) { bool neg = b(); double m = logu(lo, hi); return neg ? -m : m; }
    // small integer valued double in [lo,hi] (exact arithmetic families); word 0 -> first
    double ival(int lo, int hi) { return static_cast<double>(u(lo, hi)); }
    // dyadic rational k / 2^s with |k| <= m
    double dyadic(int m, int smax) { int64_t k = u(-m, m); int64_t s = u(0, smax); return std::ldexp(static_cast<double>(k), -static_cast<int>(s)); }

    bool exhausted() const { return pos >= v.size(); }
};

} // namespace vf
