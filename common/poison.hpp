// Heap-content model for C10: every fresh allocation is filled with a selectable byte pattern, so a read of
// never-written memory changes the result when the pattern changes.  Under AddressSanitizer the replacement
// is disabled (ASan has its own allocator, fills with 0xBE and reports the out-of-bounds accesses that follow).
#pragma once
#include <cstdint>
#include <cstdlib>
#include <cstring>
#include <new>

#if defined(__has_feature)
#  if __has_feature(address_sanitizer)
#    define VF_ASAN 1
#  endif
#endif
#if defined(__SANITIZE_ADDRESS__)
#  define VF_ASAN 1
#endif

namespace vf {
struct PoisonState {
    int mode = -1;          // -1 off, 0..255 constant byte, 256 pseudo-random stream
    uint64_t rng = 1;
    unsigned long allocations = 0;
};
inline PoisonState &poison() { static PoisonState s; return s; }
inline void poison_set(int mode, uint64_t seed = 1) { poison().mode = mode; poison().rng = seed * 2862933555777941757ULL + 3037000493ULL; }
inline void poison_fill(void *p, size_t n) {
    PoisonState &s = poison();
    ++s.allocations;
    if (s.mode < 0) return;
    if (s.mode < 256) { memset(p, s.mode, n); return; }
    unsigned char *b = static_cast<unsigned char *>(p);
    for (size_t i = 0; i < n; ++i) { s.rng = s.rng * 6364136223846793005ULL + 1442695040888963407ULL; b[i] = static_cast<unsigned char>(s.rng >> 56); }
}
#ifdef VF_ASAN
inline bool poison_active() { return false; }
#else
inline bool poison_active() { return true; }
#endif
} // namespace vf

#if !defined(VF_ASAN) && defined(VF_POISON_IMPLEMENT)
void *operator new(std::size_t n) { void *p = std::malloc(n ? n : 1); if (!p) throw std::bad_alloc(); vf::poison_fill(p, n); return p; }
void *operator new[](std::size_t n) { void *p = std::malloc(n ? n : 1); if (!p) throw std::bad_alloc(); vf::poison_fill(p, n); return p; }
void *operator new(std::size_t n, const std::nothrow_t &) noexcept { void *p = std::malloc(n ? n : 1); if (p) vf::poison_fill(p, n); return p; }
void *operator new[](std::size_t n, const std::nothrow_t &) noexcept { void *p = std::malloc(n ? n : 1); if (p) vf::poison_fill(p, n); return p; }
void operator delete(void *p) noexcept { std::free(p); }
void operator delete[](void *p) noexcept { std::free(p); }
void operator delete(void *p, std::size_t) noexcept { std::free(p); }
void operator delete[](void *p, std::size_t) noexcept { std::free(p); }
#endif

// leak check between cases (ASan/LSan builds only)
#ifdef VF_ASAN
extern "C" int __lsan_do_recoverable_leak_check(void);
namespace vf { inline bool leaks_found() { return __lsan_do_recoverable_leak_check() != 0; } }
#else
namespace vf { inline bool leaks_found() { return false; } }
#endif
