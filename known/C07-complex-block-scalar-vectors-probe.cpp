// KNOWN FINDING candidate F-complex-block-mixed (C07), compile probe: scalar (std::complex<double>) vectors passed where
// static_matrix<std::complex<double>,2,1> block vectors are expected do not compile: math::replace_scalar<static_matrix<T,N,M>,S>
// (value_type/static_matrix.hpp:189-192) yields static_matrix<double,N,M> instead of static_matrix<complex<double>,N,M>, so
// backend::reinterpret_as_rhs (builtin.hpp:1325-1344) views the complex vector as real blocks and spmv fails in
// static_matrix::operator+= (double += complex).  Real blocks work (checked by matvec_blk*/vecops_blk* "mixed-scalar-block").
// g++ -std=c++17 -fopenmp -I/repo C07-complex-block-scalar-vectors-probe.cpp   -> error at static_matrix.hpp:80
#include <complex>
#include <iostream>
#include <amgcl/backend/builtin.hpp>
#include <amgcl/value_type/static_matrix.hpp>
#include <amgcl/value_type/complex.hpp>
typedef std::complex<double> C;
int main() {
    typedef amgcl::static_matrix<C,2,2> V;
    std::vector<ptrdiff_t> ptr={0,1}, col={0}; std::vector<V> val(1); val[0](0,0)=C(1,1); val[0](0,1)=C(0,2); val[0](1,0)=C(3,0); val[0](1,1)=C(1,-1);
    amgcl::backend::crs<V> A(1,1,ptr,col,val);
    std::vector<C> x = {C(1,2), C(0,1)}, y(2);
    amgcl::backend::spmv(1.0, A, x, 0.0, y);
    std::cout << y[0] << " " << y[1] << "\n";
}
